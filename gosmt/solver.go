package main

// One long-lived SMT solver process; terms are defined incrementally with define-fun.

import (
	"bufio"
	"fmt"
	"io"
	"math/big"
	"os"
	"os/exec"
	"strings"
	"time"
)

type Solver struct {
	ts      *TermStore
	kind    string // z3new, z3old, cvc5
	cmd     *exec.Cmd
	in      io.WriteCloser
	out     *bufio.Reader
	defined map[int]bool
	ufDone  map[string]bool
	varDone map[int]bool
	log     io.Writer
	Queries int
	Seconds float64
	ErrLine string
	timeout int // ms per query
	nAssert int
	dead    bool
}

func solverArgv(kind string, timeoutMs int) []string {
	switch kind {
	case "z3a2":
		return []string{"z3-new", "-in", fmt.Sprintf("-t:%d", timeoutMs), "smt.arith.solver=2"}
	case "z3s":
		return []string{"z3-new", "-in", fmt.Sprintf("-t:%d", timeoutMs), "smt.random_seed=11", "smt.arith.random_initial_value=true"}
	case "z3old":
		return []string{"/usr/bin/z3", "-in", fmt.Sprintf("-t:%d", timeoutMs)}
	case "cvc5":
		return []string{"cvc5", "--incremental", "--produce-models", fmt.Sprintf("--tlimit-per=%d", timeoutMs), "--lang=smt2"}
	default:
		return []string{"z3-new", "-in", fmt.Sprintf("-t:%d", timeoutMs)}
	}
}

func NewSolver(ts *TermStore, kind string, timeoutMs int, logPath string) (*Solver, error) {
	argv := solverArgv(kind, timeoutMs)
	cmd := exec.Command(argv[0], argv[1:]...)
	in, err := cmd.StdinPipe()
	if err != nil {
		return nil, err
	}
	outp, err := cmd.StdoutPipe()
	if err != nil {
		return nil, err
	}
	cmd.Stderr = cmd.Stdout
	if err := cmd.Start(); err != nil {
		return nil, err
	}
	s := &Solver{ts: ts, kind: kind, cmd: cmd, in: in, out: bufio.NewReaderSize(outp, 1<<20),
		defined: map[int]bool{}, ufDone: map[string]bool{}, varDone: map[int]bool{}, timeout: timeoutMs}
	if logPath != "" {
		f, err := os.Create(logPath)
		if err == nil {
			s.log = f
		}
	}
	if kind == "cvc5" {
		s.send("(set-logic ALL)")
	}
	s.send("(set-option :produce-models true)")
	return s, nil
}

func (s *Solver) Close() {
	if s == nil || s.cmd == nil {
		return
	}
	s.in.Close()
	done := make(chan struct{})
	go func() { s.cmd.Wait(); close(done) }()
	select {
	case <-done:
	case <-time.After(2 * time.Second):
		s.cmd.Process.Kill()
	}
	if c, ok := s.log.(io.Closer); ok {
		c.Close()
	}
}

func (s *Solver) send(line string) {
	if s.log != nil {
		fmt.Fprintln(s.log, line)
	}
	io.WriteString(s.in, line+"\n")
}

// readResponse reads one complete s-expression or atom line from the solver.
func (s *Solver) readResponse() (string, error) {
	var sb strings.Builder
	depth := 0
	started := false
	for {
		line, err := s.out.ReadString('\n')
		if err != nil && line == "" {
			return sb.String(), err
		}
		trim := strings.TrimSpace(line)
		if trim == "" && !started {
			continue
		}
		started = true
		sb.WriteString(line)
		inQuote := false
		inBar := false
		for _, c := range line {
			if inQuote {
				if c == '"' {
					inQuote = false
				}
				continue
			}
			if inBar {
				if c == '|' {
					inBar = false
				}
				continue
			}
			switch c {
			case '"':
				inQuote = true
			case '|':
				inBar = true
			case '(':
				depth++
			case ')':
				depth--
			}
		}
		if depth <= 0 {
			return strings.TrimSpace(sb.String()), nil
		}
	}
}

func (s *Solver) declareUFs() {
	for _, n := range s.ts.ufOrd {
		if s.ufDone[n] {
			continue
		}
		s.ufDone[n] = true
		d := s.ts.ufs[n]
		var as []string
		for _, a := range d.args {
			as = append(as, a.String())
		}
		s.send(fmt.Sprintf("(declare-fun %s (%s) %s)", smtName(n), strings.Join(as, " "), d.ret))
	}
}

// define makes sure every node reachable from t is declared/defined in the solver (base level).
func (s *Solver) define(t *Term) {
	s.declareUFs()
	var stack []*Term
	stack = append(stack, t)
	// iterative post-order
	type fr struct {
		t *Term
		i int
	}
	var st []fr
	st = append(st, fr{t, 0})
	for len(st) > 0 {
		top := &st[len(st)-1]
		n := top.t
		if n.op == "const" {
			st = st[:len(st)-1]
			continue
		}
		if n.op == "var" {
			if !s.varDone[n.id] {
				s.varDone[n.id] = true
				s.send(fmt.Sprintf("(declare-const %s %s)", smtName(n.name), n.sort))
				if n.sort == SInt {
					if n.lo != nil {
						s.send(fmt.Sprintf("(assert (<= %s %s))", intLit(n.lo), smtName(n.name)))
					}
					if n.hi != nil {
						s.send(fmt.Sprintf("(assert (<= %s %s))", smtName(n.name), intLit(n.hi)))
					}
				}
			}
			st = st[:len(st)-1]
			continue
		}
		if s.defined[n.id] {
			st = st[:len(st)-1]
			continue
		}
		if top.i < len(n.args) {
			c := n.args[top.i]
			top.i++
			st = append(st, fr{c, 0})
			continue
		}
		s.defined[n.id] = true
		if strings.HasPrefix(n.op, "bv:") && s.ts.BvUF {
			p := strings.Split(n.op, ":")
			fname := p[1] + "_" + p[2]
			if !s.ufDone["bv!"+fname] {
				s.ufDone["bv!"+fname] = true
				s.send(fmt.Sprintf("(declare-fun |%s| (Int Int) Int)", fname))
			}
		}
		s.send(fmt.Sprintf("(define-fun t%d () %s %s)", n.id, n.sort, n.bodyM(s.ts.BvUF)))
		if strings.HasPrefix(n.op, "bv:") && s.ts.BvUF {
			a, b := n.args[0].ref(), n.args[1].ref()
			s.send(fmt.Sprintf("(assert (<= 0 t%d))", n.id))
			if n.hi != nil {
				s.send(fmt.Sprintf("(assert (<= t%d %s))", n.id, intLit(n.hi)))
			}
			switch {
			case strings.Contains(n.op, "bvand"):
				s.send(fmt.Sprintf("(assert (and (<= t%d %s) (<= t%d %s)))", n.id, a, n.id, b))
			case strings.Contains(n.op, "bvor"):
				s.send(fmt.Sprintf("(assert (and (>= t%d %s) (>= t%d %s) (<= t%d (+ %s %s))))", n.id, a, n.id, b, n.id, a, b))
			case strings.Contains(n.op, "bvxor"):
				s.send(fmt.Sprintf("(assert (<= t%d (+ %s %s)))", n.id, a, b))
			}
		}
		// field facts for the uninterpreted product / power / inverse of the felt interpretation:
		// zero annihilates, and a field has no zero divisors
		if strings.HasPrefix(n.op, "uf:fprod") || strings.HasPrefix(n.op, "uf:fexp") || strings.HasPrefix(n.op, "uf:finv") {
			var zs []string
			args := n.args
			if strings.HasPrefix(n.op, "uf:fexp") {
				args = n.args[:1]
			}
			for _, a := range args {
				zs = append(zs, fmt.Sprintf("(= %s 0)", a.ref()))
			}
			anyZero := zs[0]
			if len(zs) > 1 {
				anyZero = "(or " + strings.Join(zs, " ") + ")"
			}
			if strings.HasPrefix(n.op, "uf:fexp") {
				// x^0 = 1 handled by the executor; here k != 0 is not known, so only x != 0 => r != 0
				s.send(fmt.Sprintf("(assert (=> (not %s) (not (= t%d 0))))", anyZero, n.id))
			} else {
				s.send(fmt.Sprintf("(assert (= %s (= t%d 0)))", anyZero, n.id))
			}
		}
		// range facts for UF applications
		if strings.HasPrefix(n.op, "uf:") && n.sort == SInt {
			if n.lo != nil {
				s.send(fmt.Sprintf("(assert (<= %s t%d))", intLit(n.lo), n.id))
			}
			if n.hi != nil {
				s.send(fmt.Sprintf("(assert (<= t%d %s))", n.id, intLit(n.hi)))
			}
		}
		st = st[:len(st)-1]
	}
}

// Assert adds a permanent assertion.
func (s *Solver) Assert(t *Term) {
	if t.IsTrue() {
		return
	}
	s.define(t)
	s.send("(assert " + t.ref() + ")")
	s.nAssert++
}

type CheckResult struct {
	Status string // sat, unsat, unknown, error
	Model  map[string]string
	Secs   float64
	Raw    string
}

// Check decides satisfiability of (permanent assertions ∧ extra...). With sat, returns values of wanted vars.
func (s *Solver) Check(extra []*Term, want []*Term) CheckResult {
	for _, e := range extra {
		s.define(e)
	}
	for _, w := range want {
		s.define(w)
	}
	s.send("(push 1)")
	for _, e := range extra {
		s.send("(assert " + e.ref() + ")")
	}
	t0 := time.Now()
	s.send("(check-sat)")
	type rr struct {
		resp string
		err  error
	}
	ch := make(chan rr, 1)
	go func() {
		r, e := s.readResponse()
		ch <- rr{r, e}
	}()
	var resp string
	var err error
	select {
	case r := <-ch:
		resp, err = r.resp, r.err
	case <-time.After(time.Duration(s.timeout)*time.Millisecond*3/2 + 3*time.Second):
		// the solver ignored its own time limit: kill it; the portfolio restarts it on demand
		s.cmd.Process.Kill()
		s.dead = true
		s.Queries++
		secs := time.Since(t0).Seconds()
		s.Seconds += secs
		return CheckResult{Status: "unknown", Secs: secs, Raw: "killed by watchdog"}
	}
	secs := time.Since(t0).Seconds()
	s.Queries++
	s.Seconds += secs
	res := CheckResult{Secs: secs, Raw: resp}
	switch {
	case err != nil:
		res.Status = "error"
		s.ErrLine = "solver died: " + err.Error() + " " + resp
	case strings.Contains(resp, "(error"):
		res.Status = "error"
		s.ErrLine = resp
	case resp == "sat":
		res.Status = "sat"
	case resp == "unsat":
		res.Status = "unsat"
	default:
		res.Status = "unknown"
	}
	if res.Status == "sat" && len(want) > 0 {
		res.Model = map[string]string{}
		// query in batches
		for i := 0; i < len(want); i += 200 {
			j := i + 200
			if j > len(want) {
				j = len(want)
			}
			var names []string
			for _, w := range want[i:j] {
				names = append(names, w.ref())
			}
			s.send("(get-value (" + strings.Join(names, " ") + "))")
			r, err := s.readResponse()
			if err != nil || strings.Contains(r, "(error") {
				res.Status = "error"
				s.ErrLine = r
				break
			}
			vals := parseGetValue(r)
			for k, w := range want[i:j] {
				if k < len(vals) {
					key := w.name
					if w.op != "var" {
						key = w.ref()
					}
					res.Model[key] = vals[k]
				}
			}
		}
	}
	if res.Status != "error" || err == nil {
		s.send("(pop 1)")
	}
	return res
}

// ---- tiny s-expression parser for get-value output ----

type sexp struct {
	atom string
	list []*sexp
}

func parseSexp(s string) *sexp {
	pos := 0
	var parse func() *sexp
	skip := func() {
		for pos < len(s) && (s[pos] == ' ' || s[pos] == '\n' || s[pos] == '\t' || s[pos] == '\r') {
			pos++
		}
	}
	parse = func() *sexp {
		skip()
		if pos >= len(s) {
			return nil
		}
		if s[pos] == '(' {
			pos++
			e := &sexp{list: []*sexp{}}
			for {
				skip()
				if pos >= len(s) {
					return e
				}
				if s[pos] == ')' {
					pos++
					return e
				}
				e.list = append(e.list, parse())
			}
		}
		st := pos
		if s[pos] == '|' {
			pos++
			for pos < len(s) && s[pos] != '|' {
				pos++
			}
			pos++
			return &sexp{atom: s[st:pos]}
		}
		for pos < len(s) && s[pos] != ' ' && s[pos] != '(' && s[pos] != ')' && s[pos] != '\n' {
			pos++
		}
		return &sexp{atom: s[st:pos]}
	}
	return parse()
}

// evalNum evaluates a numeric s-expression (ints, decimals, -, /) to a rational.
func evalNum(e *sexp) (*big.Rat, bool) {
	if e == nil {
		return nil, false
	}
	if e.list == nil {
		a := e.atom
		if a == "true" || a == "false" {
			return nil, false
		}
		a = strings.TrimSuffix(a, "?")
		r, ok := new(big.Rat).SetString(a)
		return r, ok
	}
	if len(e.list) == 0 {
		return nil, false
	}
	op := e.list[0].atom
	var args []*big.Rat
	for _, x := range e.list[1:] {
		v, ok := evalNum(x)
		if !ok {
			return nil, false
		}
		args = append(args, v)
	}
	switch op {
	case "-":
		if len(args) == 1 {
			return new(big.Rat).Neg(args[0]), true
		}
		if len(args) == 2 {
			return new(big.Rat).Sub(args[0], args[1]), true
		}
	case "/":
		if len(args) == 2 && args[1].Sign() != 0 {
			return new(big.Rat).Quo(args[0], args[1]), true
		}
	case "+":
		r := new(big.Rat)
		for _, a := range args {
			r.Add(r, a)
		}
		return r, true
	case "*":
		r := big.NewRat(1, 1)
		for _, a := range args {
			r.Mul(r, a)
		}
		return r, true
	}
	return nil, false
}

func parseGetValue(r string) []string {
	e := parseSexp(r)
	var out []string
	if e == nil {
		return out
	}
	for _, p := range e.list {
		if len(p.list) != 2 {
			out = append(out, "?")
			continue
		}
		v := p.list[1]
		if v.list == nil && (v.atom == "true" || v.atom == "false") {
			out = append(out, v.atom)
			continue
		}
		if q, ok := evalNum(v); ok {
			if q.IsInt() {
				out = append(out, q.Num().String())
			} else {
				out = append(out, q.String())
			}
			continue
		}
		out = append(out, "?")
	}
	return out
}

// Portfolio: a chain of solver configurations tried in order until one gives a definite answer.
type Portfolio struct {
	ts       *TermStore
	specs    []solverSpec
	solvers  []*Solver
	asserted []*Term
	logBase  string
	Queries  int
	Seconds  float64
	ErrLine  string
	Used     map[string]int
	fails    int
}

type solverSpec struct {
	kind    string
	timeout int
}

func parseSolverChain(chain string, defTimeout int) []solverSpec {
	var out []solverSpec
	for _, p := range strings.Split(chain, ",") {
		if p == "" {
			continue
		}
		kv := strings.SplitN(p, ":", 2)
		sp := solverSpec{kind: kv[0], timeout: defTimeout}
		if len(kv) == 2 {
			fmt.Sscanf(kv[1], "%d", &sp.timeout)
		}
		out = append(out, sp)
	}
	return out
}

func NewPortfolio(ts *TermStore, chain string, defTimeout int, logBase string) *Portfolio {
	return &Portfolio{ts: ts, specs: parseSolverChain(chain, defTimeout), logBase: logBase, Used: map[string]int{}}
}

func (p *Portfolio) get(i int) *Solver {
	for len(p.solvers) <= i {
		p.solvers = append(p.solvers, nil)
	}
	if p.solvers[i] == nil {
		lp := ""
		if p.logBase != "" {
			lp = fmt.Sprintf("%s.%d.%s.smt2", p.logBase, i, p.specs[i].kind)
		}
		s, err := NewSolver(p.ts, p.specs[i].kind, p.specs[i].timeout, lp)
		if err != nil {
			return nil
		}
		for _, a := range p.asserted {
			s.Assert(a)
		}
		p.solvers[i] = s
	}
	return p.solvers[i]
}

func (p *Portfolio) Assert(t *Term) {
	if t.IsTrue() {
		return
	}
	p.asserted = append(p.asserted, t)
	for _, s := range p.solvers {
		if s != nil {
			s.Assert(t)
		}
	}
}

func (p *Portfolio) Check(extra []*Term, want []*Term) CheckResult {
	var last CheckResult
	total := 0.0
	for i := range p.specs {
		s := p.get(i)
		if s == nil {
			continue
		}
		r := s.Check(extra, want)
		p.Queries++
		p.Seconds += r.Secs
		total += r.Secs
		last = r
		if s.dead {
			p.solvers[i] = nil
		}
		if r.Status == "error" {
			p.ErrLine = s.ErrLine
			// restart this solver next time
			s.Close()
			p.solvers[i] = nil
			continue
		}
		if r.Status == "sat" || r.Status == "unsat" {
			p.Used[p.specs[i].kind]++
			r.Secs = total
			if i > 0 {
				// adaptive order: the configuration that answered goes first for the next queries
				p.fails++
				if p.fails >= 2 {
					sp, so := p.specs[i], p.solvers[i]
					copy(p.specs[1:i+1], p.specs[0:i])
					copy(p.solvers[1:i+1], p.solvers[0:i])
					p.specs[0], p.solvers[0] = sp, so
					p.fails = 0
				}
			} else {
				p.fails = 0
			}
			return r
		}
	}
	last.Secs = total
	if last.Status == "" {
		last.Status = "error"
	}
	return last
}

func (p *Portfolio) Close() {
	for _, s := range p.solvers {
		if s != nil {
			s.Close()
		}
	}
}
