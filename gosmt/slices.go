package main

import (
	"fmt"
	"go/types"
	"math/big"

	"golang.org/x/tools/go/ssa"
)

const maxSymIndexFanout = 4096

// elemPtr returns a pointer to element idx (absolute index into the backing array at obj/path).
// idx may be symbolic: a guarded choice over the feasible indices is produced.
func (ex *Exec) elemPtr(st *PState, obj *Object, path []int, idx *Term, n int) Value {
	ts := ex.ts
	if c, ok := idx.constInt(); ok {
		i := int(c.Int64())
		if i < 0 || i >= n {
			// caller has emitted the bounds obligation; return a dummy in-range pointer
			if n == 0 {
				return &PtrV{}
			}
			i = 0
		}
		return &PtrV{Obj: obj, Path: appendPath(path, i)}
	}
	lo, hi := 0, n-1
	if idx.lo != nil && idx.lo.Cmp(bi(int64(lo))) > 0 {
		if !idx.lo.IsInt64() || idx.lo.Int64() > int64(hi) {
			return &PtrV{}
		}
		lo = int(idx.lo.Int64())
	}
	if idx.hi != nil && idx.hi.Cmp(bi(int64(hi))) < 0 {
		if idx.hi.Sign() < 0 {
			return &PtrV{}
		}
		hi = int(idx.hi.Int64())
	}
	if hi-lo+1 > maxSymIndexFanout {
		fail("symbolic index fan-out %d too large", hi-lo+1)
	}
	if hi < lo {
		return &PtrV{}
	}
	if hi == lo {
		return &PtrV{Obj: obj, Path: appendPath(path, lo)}
	}
	c := &ChoiceV{}
	for k := lo; k <= hi; k++ {
		g := ts.Eq(idx, ts.Int64(int64(k)))
		if k == hi {
			// last alternative takes the remainder so that guards are exhaustive
			var others []*Term
			for _, a := range c.Alts {
				others = append(others, a.G)
			}
			g = ts.Not(ts.Or(others...))
		}
		c.Alts = append(c.Alts, Alt{G: g, V: &PtrV{Obj: obj, Path: appendPath(path, k)}})
	}
	return c
}

func (ex *Exec) indexAddr(st *PState, in *ssa.IndexAddr) Value {
	ts := ex.ts
	x := ex.operand(st, in.X)
	idx := ex.operand(st, in.Index).(*Term)
	return ex.forAlts(x, func(g *Term, xv Value) Value {
		switch p := xv.(type) {
		case *PtrV: // pointer to array
			if p.Obj == nil {
				ex.panicObligation(st, g, "nil pointer dereference (index)")
				return p
			}
			at := in.X.Type().Underlying().(*types.Pointer).Elem()
			if _, ok := ex.abstractSort(at); ok {
				c, isC := idx.constInt()
				if !isC {
					fail("symbolic index into abstracted type %s", at)
				}
				return &PtrV{Obj: p.Obj, Path: p.Path, Limb: int(c.Int64()) + 1}
			}
			n := int(at.Underlying().(*types.Array).Len())
			ex.boundsCheck(st, g, idx, ts.Int64(int64(n)))
			if p.Sub != nil {
				arr := walk(ex.objValue(st, p.Obj), p.Path).(*ArrayV)
				return ex.elemPtr(st, p.Obj, p.Path, ts.Add(p.Sub.Off, idx), len(arr.E))
			}
			return ex.elemPtr(st, p.Obj, p.Path, idx, n)
		case *SliceV:
			ex.boundsCheck(st, g, idx, p.Len)
			if p.Obj == nil {
				return &PtrV{}
			}
			arr := walk(ex.objValue(st, p.Obj), p.Path).(*ArrayV)
			return ex.elemPtr(st, p.Obj, p.Path, ts.Add(p.Off, idx), len(arr.E))
		}
		fail("IndexAddr on %T", xv)
		return nil
	})
}

func (ex *Exec) boundsCheck(st *PState, g *Term, idx, n *Term) {
	ts := ex.ts
	bad := ts.Or(ts.Lt(idx, ts.Int64(0)), ts.Le(n, idx))
	ex.panicObligation(st, ts.And(g, bad), "index out of range")
}

func (ex *Exec) index(st *PState, in *ssa.Index) Value {
	ts := ex.ts
	x := ex.operand(st, in.X)
	idx := ex.operand(st, in.Index).(*Term)
	switch a := x.(type) {
	case *ArrayV:
		ex.boundsCheck(st, ts.Bool(true), idx, ts.Int64(int64(len(a.E))))
		return ex.selectElem(a.E, idx)
	case *StringV:
		bs := ex.strBytes(a)
		ex.boundsCheck(st, ts.Bool(true), idx, ts.Int64(int64(len(bs))))
		vs := make([]Value, len(bs))
		for i := range bs {
			vs[i] = bs[i]
		}
		return ex.selectElem(vs, idx)
	}
	fail("Index on %T", x)
	return nil
}

func (ex *Exec) selectElem(es []Value, idx *Term) Value {
	ts := ex.ts
	if len(es) == 0 {
		return nil
	}
	if c, ok := idx.constInt(); ok {
		i := int(c.Int64())
		if i < 0 || i >= len(es) {
			return es[0]
		}
		return es[i]
	}
	lo, hi := 0, len(es)-1
	if idx.lo != nil && idx.lo.IsInt64() && idx.lo.Int64() > int64(lo) && idx.lo.Int64() <= int64(hi) {
		lo = int(idx.lo.Int64())
	}
	if idx.hi != nil && idx.hi.IsInt64() && idx.hi.Int64() < int64(hi) && idx.hi.Int64() >= int64(lo) {
		hi = int(idx.hi.Int64())
	}
	res := es[hi]
	for k := hi - 1; k >= lo; k-- {
		res = ex.mergeVal(ts.Eq(idx, ts.Int64(int64(k))), es[k], res)
	}
	return res
}

// sliceElem loads s[i] (no bounds obligation).
func (ex *Exec) sliceElem(st *PState, s *SliceV, i *Term) Value {
	if s.Obj == nil {
		fail("element of nil slice")
	}
	arr := walk(ex.objValue(st, s.Obj), s.Path).(*ArrayV)
	return ex.underGuard(st, ex.selectElem(arr.E, ex.ts.Add(s.Off, i)))
}

func (ex *Exec) sliceStore(st *PState, s *SliceV, i *Term, v Value) {
	arr := walk(ex.objValue(st, s.Obj), s.Path).(*ArrayV)
	p := ex.elemPtr(st, s.Obj, s.Path, ex.ts.Add(s.Off, i), len(arr.E))
	ex.store(st, p, v)
}

func (ex *Exec) makeSlice(st *PState, t types.Type, ln, cp *Term) Value {
	ts := ex.ts
	et := t.Underlying().(*types.Slice).Elem()
	ex.panicObligation(st, ts.Or(ts.Lt(ln, ts.Int64(0)), ts.Lt(cp, ln)), "makeslice: len out of range")
	var n int64
	if c, ok := cp.constInt(); ok {
		n = c.Int64()
	} else {
		if cp.hi == nil || !cp.hi.IsInt64() || cp.hi.Int64() > 1<<20 {
			fail("make([]T, n) with unbounded symbolic n (bound it with verifAssume)")
		}
		n = cp.hi.Int64()
	}
	if n < 0 {
		n = 0
	}
	if n > 1<<22 {
		fail("make([]T, %d) too large", n)
	}
	arr := ex.zeroValue(types.NewArray(et, n))
	o := ex.alloc(st, "makeslice", types.NewArray(et, n), arr)
	return &SliceV{Obj: o, Off: ts.Int64(0), Len: ln, Cap: cp}
}

func (ex *Exec) sliceOp(st *PState, in *ssa.Slice) Value {
	ts := ex.ts
	x := ex.operand(st, in.X)
	var lo, hi, max *Term
	if in.Low != nil {
		lo = ex.operand(st, in.Low).(*Term)
	}
	if in.High != nil {
		hi = ex.operand(st, in.High).(*Term)
	}
	if in.Max != nil {
		max = ex.operand(st, in.Max).(*Term)
	}
	return ex.forAlts(x, func(g *Term, xv Value) Value {
		switch s := xv.(type) {
		case *StringV:
			n := ex.strLen(s)
			l, h := 0, n
			if lo != nil {
				c, ok := lo.constInt()
				if !ok {
					fail("string slice with symbolic bound")
				}
				l = int(c.Int64())
			}
			if hi != nil {
				c, ok := hi.constInt()
				if !ok {
					fail("string slice with symbolic bound")
				}
				h = int(c.Int64())
			}
			if l < 0 || h > n || l > h {
				ex.panicObligation(st, g, "string slice bounds out of range")
				return &StringV{}
			}
			if s.Bytes == nil {
				return &StringV{S: s.S[l:h]}
			}
			return &StringV{Bytes: s.Bytes[l:h]}
		case *PtrV: // *array
			if s.Obj == nil {
				ex.panicObligation(st, g, "nil pointer dereference (slice)")
				return &SliceV{Off: ts.Int64(0), Len: ts.Int64(0), Cap: ts.Int64(0)}
			}
			n := in.X.Type().Underlying().(*types.Pointer).Elem().Underlying().(*types.Array).Len()
			if s.Sub != nil {
				return ex.reslice(st, g, s.Obj, s.Path, s.Sub.Off, ts.Int64(n), ts.Int64(n), lo, hi, max)
			}
			return ex.reslice(st, g, s.Obj, s.Path, ts.Int64(0), ts.Int64(n), ts.Int64(n), lo, hi, max)
		case *SliceV:
			return ex.reslice(st, g, s.Obj, s.Path, s.Off, s.Len, s.Cap, lo, hi, max)
		}
		fail("Slice on %T", xv)
		return nil
	})
}

func (ex *Exec) reslice(st *PState, g *Term, obj *Object, path []int, off, ln, cp *Term, lo, hi, max *Term) Value {
	ts := ex.ts
	if lo == nil {
		lo = ts.Int64(0)
	}
	if hi == nil {
		hi = ln
	}
	limit := cp
	if max != nil {
		limit = max
		ex.panicObligation(st, ts.And(g, ts.Lt(cp, max)), "slice bounds out of range (max > cap)")
	}
	bad := ts.Or(ts.Lt(lo, ts.Int64(0)), ts.Lt(hi, lo), ts.Lt(limit, hi))
	ex.panicObligation(st, ts.And(g, bad), "slice bounds out of range")
	return &SliceV{Obj: obj, Path: path, Off: ts.Add(off, lo), Len: ts.Sub(hi, lo), Cap: ts.Sub(limit, lo)}
}

// ---------- builtins on slices ----------

func (ex *Exec) builtinLen(st *PState, x Value) Value {
	ts := ex.ts
	return ex.forAlts(x, func(g *Term, v Value) Value {
		switch s := v.(type) {
		case *SliceV:
			return s.Len
		case *StringV:
			return ts.Int64(int64(ex.strLen(s)))
		case *ArrayV:
			return ts.Int64(int64(len(s.E)))
		case *PtrV:
			if s.Sub != nil {
				return ts.Int64(int64(s.Sub.N))
			}
			if s.Obj != nil {
				if a, ok := walk(ex.objValue(st, s.Obj), s.Path).(*ArrayV); ok {
					return ts.Int64(int64(len(a.E)))
				}
			}
		case *MapV:
			if s.Obj == nil {
				return ts.Int64(0)
			}
			md := ex.objValue(st, s.Obj).(*MapData)
			var parts []*Term
			for _, k := range md.Keys {
				parts = append(parts, ts.Ite(md.Ent[k].Present, ts.Int64(1), ts.Int64(0)))
			}
			if len(parts) == 0 {
				return ts.Int64(0)
			}
			return ts.Add(parts...)
		case *ChanV:
			if s.Obj == nil {
				return ts.Int64(0)
			}
			return ts.Int64(int64(len(ex.objValue(st, s.Obj).(*ChanData).Q)))
		}
		fail("len of %T", v)
		return nil
	})
}

func (ex *Exec) builtinCap(st *PState, x Value) Value {
	return ex.forAlts(x, func(g *Term, v Value) Value {
		switch s := v.(type) {
		case *SliceV:
			return s.Cap
		case *ArrayV:
			return ex.ts.Int64(int64(len(s.E)))
		case *ChanV:
			return ex.ts.Int64(1 << 20)
		}
		fail("cap of %T", v)
		return nil
	})
}

// symbolic-length element-wise copy: dst[i] = src[i] for i < n
func (ex *Exec) copyElems(st *PState, dst, src *SliceV, n *Term) {
	ts := ex.ts
	if n.IsConst() && n.ival.Sign() == 0 {
		return
	}
	if dst.Obj == nil || src.Obj == nil {
		return
	}
	var maxN int64
	if c, ok := n.constInt(); ok {
		maxN = c.Int64()
	} else {
		if n.hi == nil || !n.hi.IsInt64() {
			fail("copy with unbounded length")
		}
		maxN = n.hi.Int64()
	}
	if maxN <= 0 {
		return
	}
	if maxN > 1<<20 {
		fail("copy of %d elements too large", maxN)
	}
	// read all source elements first (memmove semantics)
	vals := make([]Value, maxN)
	for i := int64(0); i < maxN; i++ {
		vals[i] = ex.sliceElemGuarded(st, src, ts.Int64(i))
	}
	darr := walk(ex.objValue(st, dst.Obj), dst.Path).(*ArrayV)
	for i := int64(0); i < maxN; i++ {
		it := ts.Int64(i)
		inRange := ts.Lt(it, n)
		if inRange.IsFalse() {
			break
		}
		// destination cell outside the backing array: only reachable under an infeasible guard
		// (bounds are separate obligations of the slicing operations)
		if c, ok := ts.Add(dst.Off, it).constInt(); ok && (c.Sign() < 0 || c.Cmp(bi(int64(len(darr.E)))) >= 0) {
			break
		}
		if inRange.IsTrue() {
			ex.sliceStore(st, dst, it, vals[i])
		} else {
			old := ex.sliceElemGuarded(st, dst, it)
			ex.sliceStore(st, dst, it, ex.mergeVal(inRange, vals[i], old))
		}
	}
}

// sliceElemGuarded loads s[i] tolerating indices beyond the backing array (returns element 0 there);
// used only under a guard that excludes those cases.
func (ex *Exec) sliceElemGuarded(st *PState, s *SliceV, i *Term) Value {
	arr := walk(ex.objValue(st, s.Obj), s.Path).(*ArrayV)
	if len(arr.E) == 0 {
		return nil
	}
	return ex.selectElem(arr.E, ex.ts.Add(s.Off, i))
}

func (ex *Exec) builtinCopy(st *PState, d, s Value) Value {
	ts := ex.ts
	dst, ok := d.(*SliceV)
	if !ok {
		fail("copy into %T", d)
	}
	var src *SliceV
	switch sv := s.(type) {
	case *SliceV:
		src = sv
	case *StringV:
		src = ex.convert(st, sv, types.Typ[types.String], types.NewSlice(types.Typ[types.Uint8])).(*SliceV)
	case *ChoiceV:
		// guarded alternatives of the source: copy under each guard on a forked heap, then merge
		var res Value
		heap := st.heap
		for i := len(sv.Alts) - 1; i >= 0; i-- {
			a := sv.Alts[i]
			sub := &PState{g: ts.And(st.g, a.G), heap: st.heap.Clone(), env: st.env}
			r := ex.builtinCopy(sub, d, a.V)
			if res == nil {
				res, heap = r, sub.heap
			} else {
				res, heap = ex.mergeVal(a.G, r, res), ex.mergeHeaps(a.G, sub.heap, heap)
			}
		}
		st.heap = heap
		return res
	default:
		fail("copy from %T", s)
	}
	n := ts.Ite(ts.Le(dst.Len, src.Len), dst.Len, src.Len)
	ex.copyElems(st, dst, src, n)
	return n
}

func (ex *Exec) builtinAppend(st *PState, sT types.Type, a, b Value) Value {
	ts := ex.ts
	if c, ok := a.(*ChoiceV); ok {
		return ex.forAlts(c, func(g *Term, v Value) Value { return ex.builtinAppend(st, sT, v, b) })
	}
	dst := a.(*SliceV)
	var src *SliceV
	switch sv := b.(type) {
	case *SliceV:
		src = sv
	case *StringV:
		src = ex.convert(st, sv, types.Typ[types.String], types.NewSlice(types.Typ[types.Uint8])).(*SliceV)
	case *ChoiceV:
		return ex.forAlts(sv, func(g *Term, v Value) Value { return ex.builtinAppend(st, sT, a, v) })
	default:
		fail("append of %T", b)
	}
	if src.Len.IsConst() && src.Len.ival.Sign() == 0 {
		return dst
	}
	newLen := ts.Add(dst.Len, src.Len)
	fits := ts.Le(newLen, dst.Cap)
	if dst.Obj == nil {
		fits = ts.Bool(false)
	}
	et := sT.Underlying().(*types.Slice).Elem()
	grow := func(sub *PState) *SliceV {
		var capN int64
		if c, ok := newLen.constInt(); ok {
			capN = c.Int64()
		} else {
			if newLen.hi == nil || !newLen.hi.IsInt64() || newLen.hi.Int64() > 1<<20 {
				fail("append with unbounded symbolic length")
			}
			capN = newLen.hi.Int64()
		}
		arr := ex.zeroValue(types.NewArray(et, capN))
		o := ex.alloc(sub, "append", types.NewArray(et, capN), arr)
		// capacity of grown slice: Go leaves it implementation-defined (>= newLen); model: exactly newLen
		ns := &SliceV{Obj: o, Off: ts.Int64(0), Len: newLen, Cap: newLen}
		if dst.Obj != nil {
			ex.copyElems(sub, &SliceV{Obj: o, Off: ts.Int64(0), Len: dst.Len, Cap: newLen}, dst, dst.Len)
		}
		ex.copyElems(sub, &SliceV{Obj: o, Off: dst.Len, Len: src.Len, Cap: newLen}, src, src.Len)
		return ns
	}
	inplace := func(sub *PState) *SliceV {
		ex.copyElems(sub, &SliceV{Obj: dst.Obj, Path: dst.Path, Off: ts.Add(dst.Off, dst.Len), Len: src.Len, Cap: src.Len}, src, src.Len)
		return &SliceV{Obj: dst.Obj, Path: dst.Path, Off: dst.Off, Len: newLen, Cap: dst.Cap}
	}
	if fits.IsTrue() {
		return inplace(st)
	}
	if fits.IsFalse() {
		return grow(st)
	}
	// both possible: run each on a forked heap and merge
	s1 := &PState{g: ts.And(st.g, fits), heap: st.heap.Clone(), env: st.env}
	r1 := inplace(s1)
	s2 := &PState{g: ts.And(st.g, ts.Not(fits)), heap: st.heap.Clone(), env: st.env}
	r2 := grow(s2)
	st.heap = ex.mergeHeaps(fits, s1.heap, s2.heap)
	return ex.mergeVal(fits, r1, r2)
}

// ---------- maps ----------

func (ex *Exec) mapKey(k Value) (string, bool) {
	switch v := k.(type) {
	case *StringV:
		if v.Bytes == nil {
			return "s:" + v.S, true
		}
	case *Term:
		if v.IsConst() {
			switch v.sort {
			case SInt:
				return "i:" + v.ival.String(), true
			case SBool:
				return fmt.Sprintf("b:%v", v.bval), true
			}
		}
	case *StructV:
		s := "{"
		for _, f := range v.F {
			fs, ok := ex.mapKey(f)
			if !ok {
				return "", false
			}
			s += fs + ","
		}
		return s + "}", true
	case *ArrayV:
		s := "["
		for _, f := range v.E {
			fs, ok := ex.mapKey(f)
			if !ok {
				return "", false
			}
			s += fs + ","
		}
		return s + "]", true
	case *PtrV:
		if v.Obj == nil {
			return "p:nil", true
		}
		return fmt.Sprintf("p:%d%v", v.Obj.ID, v.Path), true
	case *IfaceV:
		if v.T == nil {
			return "iface:nil", true
		}
		ks, ok := ex.mapKey(v.V)
		return "iface:" + v.T.String() + ":" + ks, ok
	}
	return "", false
}

func (ex *Exec) mapUpdate(st *PState, m, k, v Value) {
	mv, ok := m.(*MapV)
	if !ok {
		fail("map update on %T", m)
	}
	if mv.Obj == nil {
		ex.panicObligation(st, ex.ts.Bool(true), "assignment to entry in nil map")
		return
	}
	md := ex.objValue(st, mv.Obj).(*MapData)
	ks, ok := ex.mapKey(k)
	if !ok {
		fail("map update with symbolic key")
	}
	n := &MapData{Ent: make(map[string]MapEntry, len(md.Ent)+1)}
	for kk, e := range md.Ent {
		n.Ent[kk] = e
	}
	n.Keys = append(n.Keys, md.Keys...)
	if _, exist := n.Ent[ks]; !exist {
		n.Keys = append(n.Keys, ks)
	}
	n.Ent[ks] = MapEntry{Key: k, Present: ex.ts.Bool(true), Val: v}
	st.heap.Set(mv.Obj, n)
}

func (ex *Exec) mapDelete(st *PState, m, k Value) {
	mv := m.(*MapV)
	if mv.Obj == nil {
		return
	}
	md := ex.objValue(st, mv.Obj).(*MapData)
	ks, ok := ex.mapKey(k)
	if !ok {
		fail("map delete with symbolic key")
	}
	e, exist := md.Ent[ks]
	if !exist {
		return
	}
	n := &MapData{Ent: make(map[string]MapEntry, len(md.Ent))}
	for kk, e := range md.Ent {
		n.Ent[kk] = e
	}
	n.Keys = append(n.Keys, md.Keys...)
	e.Present = ex.ts.Bool(false)
	n.Ent[ks] = e
	st.heap.Set(mv.Obj, n)
}

func (ex *Exec) lookup(st *PState, in *ssa.Lookup) Value {
	ts := ex.ts
	x := ex.operand(st, in.X)
	k := ex.operand(st, in.Index)
	if s, ok := x.(*StringV); ok {
		idx := k.(*Term)
		bs := ex.strBytes(s)
		ex.boundsCheck(st, ts.Bool(true), idx, ts.Int64(int64(len(bs))))
		vs := make([]Value, len(bs))
		for i := range bs {
			vs[i] = bs[i]
		}
		return ex.selectElem(vs, idx)
	}
	mt := in.X.Type().Underlying().(*types.Map)
	zero := ex.zeroValue(mt.Elem())
	res := ex.forAlts(x, func(g *Term, xv Value) Value {
		mv := xv.(*MapV)
		if mv.Obj == nil {
			return &TupleV{V: []Value{zero, ts.Bool(false)}}
		}
		md := ex.objValue(st, mv.Obj).(*MapData)
		if ks, ok := ex.mapKey(k); ok {
			if e, ok := md.Ent[ks]; ok {
				return &TupleV{V: []Value{ex.mergeVal(e.Present, e.Val, zero), e.Present}}
			}
			return &TupleV{V: []Value{zero, ts.Bool(false)}}
		}
		// symbolic key: compare with each entry
		var val Value = zero
		found := ts.Bool(false)
		for i := len(md.Keys) - 1; i >= 0; i-- {
			e := md.Ent[md.Keys[i]]
			hit := ts.And(e.Present, ex.valueEq(e.Key, k))
			val = ex.mergeVal(hit, e.Val, val)
			found = ts.Or(hit, found)
		}
		return &TupleV{V: []Value{val, found}}
	})
	if in.CommaOk {
		return res
	}
	return res.(*TupleV).V[0]
}

type rangeIter struct {
	str  *StringV
	keys []string
	md   *MapData
	pos  int
}

func (ex *Exec) rangeInit(st *PState, in *ssa.Range) Value {
	x := ex.operand(st, in.X)
	switch v := x.(type) {
	case *StringV:
		if v.Bytes != nil {
			fail("range over symbolic string")
		}
		o := ex.alloc(st, "rangeiter", nil, &rangeIter{str: v})
		return &PtrV{Obj: o}
	case *MapV:
		if v.Obj == nil {
			o := ex.alloc(st, "rangeiter", nil, &rangeIter{md: &MapData{}})
			return &PtrV{Obj: o}
		}
		md := ex.objValue(st, v.Obj).(*MapData)
		var keys []string
		for _, k := range md.Keys {
			p := md.Ent[k].Present
			if p.IsFalse() {
				continue
			}
			if !p.IsTrue() {
				fail("range over map with symbolic membership")
			}
			keys = append(keys, k)
		}
		ex.note("map iteration in insertion order")
		o := ex.alloc(st, "rangeiter", nil, &rangeIter{md: md, keys: keys})
		return &PtrV{Obj: o}
	}
	fail("range over %T", x)
	return nil
}

func (ex *Exec) rangeNext(st *PState, in *ssa.Next) Value {
	ts := ex.ts
	p := ex.operand(st, in.Iter).(*PtrV)
	it := ex.objValue(st, p.Obj).(*rangeIter)
	tup := in.Type().(*types.Tuple)
	if in.IsString {
		if it.pos >= len(it.str.S) {
			return &TupleV{V: []Value{ts.Bool(false), ts.Int64(0), ts.Int64(0)}}
		}
		// decode one rune
		rs := []rune(it.str.S[it.pos:])
		r := rs[0]
		pos := it.pos
		n := len(string(r))
		if r == 0xFFFD && it.str.S[it.pos] != 0xEF {
			n = 1
		}
		st.heap.Set(p.Obj, &rangeIter{str: it.str, pos: pos + n})
		return &TupleV{V: []Value{ts.Bool(true), ts.Int64(int64(pos)), ts.Int64(int64(r))}}
	}
	if it.pos >= len(it.keys) {
		return &TupleV{V: []Value{ts.Bool(false), ex.zeroValue(tup.At(1).Type()), ex.zeroValue(tup.At(2).Type())}}
	}
	e := it.md.Ent[it.keys[it.pos]]
	st.heap.Set(p.Obj, &rangeIter{md: it.md, keys: it.keys, pos: it.pos + 1})
	return &TupleV{V: []Value{ts.Bool(true), e.Key, e.Val}}
}

// ---------- channels (sequential FIFO model) ----------

func (ex *Exec) chanSend(st *PState, c, v Value) {
	cv := c.(*ChanV)
	if cv.Obj == nil {
		fail("send on nil channel")
	}
	cd := ex.objValue(st, cv.Obj).(*ChanData)
	n := &ChanData{Closed: cd.Closed, Q: append(append([]Value{}, cd.Q...), v)}
	st.heap.Set(cv.Obj, n)
}

func (ex *Exec) chanRecv(st *PState, c Value, commaOk bool) Value {
	cv := c.(*ChanV)
	if cv.Obj == nil {
		fail("receive on nil channel")
	}
	cd := ex.objValue(st, cv.Obj).(*ChanData)
	et := cv.Obj.Type.Underlying().(*types.Chan).Elem()
	if len(cd.Q) == 0 {
		if cd.Closed {
			if commaOk {
				return &TupleV{V: []Value{ex.zeroValue(et), ex.ts.Bool(false)}}
			}
			return ex.zeroValue(et)
		}
		fail("receive on empty channel in sequential schedule (deadlock in this schedule)")
	}
	v := cd.Q[0]
	st.heap.Set(cv.Obj, &ChanData{Closed: cd.Closed, Q: append([]Value{}, cd.Q[1:]...)})
	if commaOk {
		return &TupleV{V: []Value{v, ex.ts.Bool(true)}}
	}
	return v
}

var _ = big.NewInt
