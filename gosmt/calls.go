package main

import (
	"fmt"
	"go/types"
	"math/big"
	"strings"

	"golang.org/x/tools/go/ssa"
)

func (ex *Exec) prepareCall(st *PState, c *ssa.CallCommon) (Value, []Value) {
	var args []Value
	for _, a := range c.Args {
		args = append(args, ex.operand(st, a))
	}
	if c.IsInvoke() {
		return &FuncV{Builtin: "invoke", Recv: ex.operand(st, c.Value)}, args
	}
	return ex.operand(st, c.Value), args
}

func (ex *Exec) invoke(st *PState, fnv Value, args []Value, c *ssa.CallCommon) Value {
	switch f := fnv.(type) {
	case *FuncV:
		switch {
		case f.Builtin == "invoke":
			return ex.invokeMethod(st, f.Recv, c.Method, args)
		case f.Builtin != "":
			return ex.callBuiltin(st, f.Builtin, args, c)
		case f.Fn == nil:
			ex.panicObligation(st, ex.ts.Bool(true), "call of nil function")
			return nil
		}
		return ex.callStatic(st, f.Fn, args, f.Bindings)
	case *ChoiceV:
		return ex.callUnderAlts(st, f, func(sub *PState, v Value) Value { return ex.invoke(sub, v, args, c) })
	}
	fail("call of %T", fnv)
	return nil
}

// callUnderAlts runs f once per alternative on forked states and merges heaps and results.
func (ex *Exec) callUnderAlts(st *PState, c *ChoiceV, f func(sub *PState, v Value) Value) Value {
	ts := ex.ts
	var res Value
	var heap *Heap
	g := ts.Bool(false)
	first := true
	for i := len(c.Alts) - 1; i >= 0; i-- {
		a := c.Alts[i]
		sub := &PState{g: ts.And(st.g, a.G), heap: st.heap.Clone(), env: st.env}
		if sub.g.IsFalse() {
			continue
		}
		r := f(sub, a.V)
		if sub.g.IsFalse() {
			continue
		}
		if first {
			res, heap, g = r, sub.heap, sub.g
			first = false
		} else {
			res = ex.mergeVal(sub.g, r, res)
			heap = ex.mergeHeaps(sub.g, sub.heap, heap)
			g = ts.Or(sub.g, g)
		}
	}
	if first {
		st.g = ts.Bool(false)
		return nil
	}
	st.heap = heap
	st.g = g
	return res
}

func (ex *Exec) invokeMethod(st *PState, recv Value, m *types.Func, args []Value) Value {
	switch r := recv.(type) {
	case *IfaceV:
		if r.T == nil {
			ex.panicObligation(st, ex.ts.Bool(true), "method call on nil interface")
			return nil
		}
		ms := ex.prog.MethodSets.MethodSet(r.T)
		sel := ms.Lookup(m.Pkg(), m.Name())
		if sel == nil {
			fail("method %s not found on %s", m.Name(), r.T)
		}
		fn := ex.prog.MethodValue(sel)
		if fn == nil {
			fail("no method value for %s.%s", r.T, m.Name())
		}
		return ex.callStatic(st, fn, append([]Value{r.V}, args...), nil)
	case *ChoiceV:
		return ex.callUnderAlts(st, r, func(sub *PState, v Value) Value { return ex.invokeMethod(sub, v, m, args) })
	}
	fail("invoke on %T", recv)
	return nil
}

func funcBaseName(fn *ssa.Function) string {
	if o := fn.Origin(); o != nil {
		return o.Name()
	}
	return fn.Name()
}

func funcFullName(fn *ssa.Function) string {
	if o := fn.Origin(); o != nil {
		return o.String()
	}
	return fn.String()
}

func (ex *Exec) callStatic(st *PState, fn *ssa.Function, args []Value, bindings []Value) Value {
	base := funcBaseName(fn)
	if strings.HasPrefix(base, "verif") {
		if v, ok := ex.verifIntrinsic(st, fn, base, args); ok {
			return v
		}
	}
	full := funcFullName(fn)
	if target, ok := ex.cfg.Stubs[full]; ok {
		tf := ex.harnessPkg.Func(target)
		if tf == nil {
			fail("stub target %s not found in harness package", target)
		}
		return ex.callStatic(st, tf, args, nil)
	}
	if ex.isSummarised(fn, full) {
		// summaries work on concrete alternatives: split guarded-choice arguments first
		for i, a := range args {
			if ch, ok := a.(*ChoiceV); ok {
				return ex.callUnderAlts(st, ch, func(sub *PState, v Value) Value {
					a2 := append([]Value{}, args...)
					a2[i] = v
					return ex.callStatic(sub, fn, a2, bindings)
				})
			}
		}
	}
	if v, ok := ex.stdStub(st, fn, full, args); ok {
		return v
	}
	// summaries for abstracted receiver / argument types
	if v, ok := ex.abstractCall(st, fn, full, args); ok {
		return v
	}
	if fn.Blocks == nil {
		fail("no body (assembly/external) for %s", full)
	}
	if fn.Pkg != nil && fn.Name() != "init" {
		ex.ensureInit(fn.Pkg)
	}
	if fn.Name() == "init" && fn.Pkg != nil && fn.Signature.Recv() == nil && len(fn.Params) == 0 && ex.curFn != nil && ex.curFn.Name() == "init" {
		// dependency init called from an init: run lazily instead
		return nil
	}
	return ex.callFunction(st, fn, args, bindings)
}

func (ex *Exec) callBuiltin(st *PState, name string, args []Value, c *ssa.CallCommon) Value {
	ts := ex.ts
	switch name {
	case "len":
		return ex.builtinLen(st, args[0])
	case "cap":
		return ex.builtinCap(st, args[0])
	case "append":
		return ex.builtinAppend(st, c.Args[0].Type(), args[0], args[1])
	case "copy":
		return ex.builtinCopy(st, args[0], args[1])
	case "delete":
		ex.mapDelete(st, args[0], args[1])
		return nil
	case "print", "println":
		return nil
	case "recover":
		return &IfaceV{}
	case "close":
		cv := args[0].(*ChanV)
		cd := ex.objValue(st, cv.Obj).(*ChanData)
		st.heap.Set(cv.Obj, &ChanData{Q: cd.Q, Closed: true})
		return nil
	case "ssa:wrapnilchk":
		return args[0]
	case "min", "max":
		r := args[0].(*Term)
		for _, a := range args[1:] {
			b := a.(*Term)
			if name == "min" {
				r = ts.Ite(ts.Le(r, b), r, b)
			} else {
				r = ts.Ite(ts.Le(b, r), r, b)
			}
		}
		return r
	case "clear":
		if s, ok := args[0].(*SliceV); ok {
			n, ok := s.Len.constInt()
			if !ok {
				fail("clear with symbolic length")
			}
			et := c.Args[0].Type().Underlying().(*types.Slice).Elem()
			for i := int64(0); i < n.Int64(); i++ {
				ex.sliceStore(st, s, ts.Int64(i), ex.zeroValue(et))
			}
			return nil
		}
	}
	fail("unsupported builtin %s", name)
	return nil
}

// ---------- verif* intrinsics ----------

func constString(v Value) string {
	s, ok := v.(*StringV)
	if !ok || s.Bytes != nil {
		fail("intrinsic needs a constant string")
	}
	return s.S
}

func (ex *Exec) constIntArg(v Value) int64 {
	t, ok := v.(*Term)
	if !ok || !t.IsConst() {
		fail("intrinsic needs a constant int")
	}
	return t.ival.Int64()
}

func (ex *Exec) verifIntrinsic(st *PState, fn *ssa.Function, base string, args []Value) (Value, bool) {
	ts := ex.ts
	switch base {
	case "verifAssume":
		ex.simplifyGuard(st)
		c := args[0].(*Term)
		ex.assume(ts.Implies(st.g, c))
		if st.g.IsTrue() {
			ex.tighten(c)
		}
		return nil, true
	case "verifAssert":
		ex.simplifyGuard(st)
		ex.addObligation(st, args[0].(*Term), "assert", constString(args[1]))
		return nil, true
	case "verifCover":
		// reachability witness: guard must be satisfiable
		ex.obligations = append(ex.obligations, &Obligation{Kind: "cover", ID: constString(args[0]), Cond: st.g, Pos: ex.pos(), Order: len(ex.obligations)})
		return nil, true
	case "verifAny":
		rt := fn.Signature.Results().At(0).Type()
		return ex.freshValue(ex.uniq(constString(args[0])), rt), true
	case "verifIntRange":
		lo, hi := ex.constIntArg(args[1]), ex.constIntArg(args[2])
		return ex.newVar(ex.uniq(constString(args[0])), SInt, bi(lo), bi(hi)), true
	case "verifBytes":
		name := ex.uniq(constString(args[0]))
		n := ex.constIntArg(args[1])
		et := types.Typ[types.Uint8]
		arr := &ArrayV{E: make([]Value, n)}
		for i := range arr.E {
			arr.E[i] = ex.newVar(fmt.Sprintf("%s[%d]", name, i), SInt, bigZero, bi(255))
		}
		o := ex.alloc(st, name, types.NewArray(et, n), arr)
		nn := ts.Int64(n)
		return &SliceV{Obj: o, Off: ts.Int64(0), Len: nn, Cap: nn}, true
	case "verifSlice":
		// verifSlice[T](name string, len, cap int, maxcap const) []T: symbolic content, symbolic len<=cap<=maxcap
		rt := fn.Signature.Results().At(0).Type()
		et := rt.Underlying().(*types.Slice).Elem()
		name := ex.uniq(constString(args[0]))
		ln, cp := args[1].(*Term), args[2].(*Term)
		maxc := ex.constIntArg(args[3])
		arr := &ArrayV{E: make([]Value, maxc)}
		for i := range arr.E {
			arr.E[i] = ex.freshValue(fmt.Sprintf("%s[%d]", name, i), et)
		}
		o := ex.alloc(st, name, types.NewArray(et, maxc), arr)
		ex.assume(ts.Implies(st.g, ts.And(ts.Le(ts.Int64(0), ln), ts.Le(ln, cp), ts.Le(cp, ts.Int64(maxc)))))
		return &SliceV{Obj: o, Off: ts.Int64(0), Len: ln, Cap: cp}, true
	case "verifUF", "verifUF8", "verifUF32":
		// verifUF*(name string, args ...uint64) T : uninterpreted function, range = range of T
		name := constString(args[0])
		sl := args[1].(*SliceV)
		n := ex.constIntArg(sl.Len)
		var targs []*Term
		var sorts []Sort
		for i := int64(0); i < n; i++ {
			targs = append(targs, ex.sliceElem(st, sl, ts.Int64(i)).(*Term))
			sorts = append(sorts, SInt)
		}
		rt := fn.Signature.Results().At(0).Type()
		ii, _ := basicIntInfo(rt)
		d := ts.DeclareUF(fmt.Sprintf("%s/%d", name, n), sorts, SInt, ii.lo, ii.hi)
		return ts.App(d, targs...), true
	case "verifUFAny":
		// verifUFAny[T](name string, args ...any) T: every leaf of the result is an uninterpreted
		// function of all leaves of the arguments
		name := constString(args[0])
		sl := args[1].(*SliceV)
		n := ex.constIntArg(sl.Len)
		var targs []*Term
		for i := int64(0); i < n; i++ {
			ex.flattenLeaves(st, ex.sliceElem(st, sl, ts.Int64(i)), &targs)
		}
		rt := fn.Signature.Results().At(0).Type()
		return ex.ufValue(name, rt, targs), true
	case "verifAssumeInjective":
		// pairwise injectivity of all applications of verifUFAny(name,...) made so far:
		// equal results (all leaves) imply equal arguments
		name := constString(args[0])
		apps := ex.ufApps[name]
		for i := 0; i < len(apps); i++ {
			for j := i + 1; j < len(apps); j++ {
				a, b := apps[i], apps[j]
				if len(a.args) != len(b.args) || len(a.outs) != len(b.outs) {
					continue
				}
				var eo, ea []*Term
				for k := range a.outs {
					if a.outs[k].sort == SBool {
						eo = append(eo, ts.Eq(a.outs[k], b.outs[k]))
					} else {
						eo = append(eo, ts.Eq(a.outs[k], b.outs[k]))
					}
				}
				for k := range a.args {
					ea = append(ea, ts.Eq(a.args[k], b.args[k]))
				}
				ex.assume(ts.Implies(ts.And(eo...), ts.And(ea...)))
			}
		}
		return nil, true
	case "verifAssumeDisjoint":
		// results of verifUFAny(name1,...) never equal results of verifUFAny(name2,...)
		n1, n2 := constString(args[0]), constString(args[1])
		for _, a := range ex.ufApps[n1] {
			for _, b := range ex.ufApps[n2] {
				if len(a.outs) != len(b.outs) {
					continue
				}
				var eo []*Term
				for k := range a.outs {
					eo = append(eo, ts.Eq(a.outs[k], b.outs[k]))
				}
				ex.assume(ts.Not(ts.And(eo...)))
			}
		}
		return nil, true
	case "verifUFBool":
		name := constString(args[0])
		sl := args[1].(*SliceV)
		n := ex.constIntArg(sl.Len)
		var targs []*Term
		var sorts []Sort
		for i := int64(0); i < n; i++ {
			targs = append(targs, ex.sliceElem(st, sl, ts.Int64(i)).(*Term))
			sorts = append(sorts, SInt)
		}
		d := ts.DeclareUF(fmt.Sprintf("%s/%d", name, n), sorts, SBool, nil, nil)
		return ts.App(d, targs...), true
	case "verifHavoc":
		// verifHavoc[T](name string, p *T)
		p := args[1].(*PtrV)
		et := fn.Signature.Params().At(1).Type().(*types.Pointer).Elem()
		ex.store(st, p, ex.freshValue(ex.uniq(constString(args[0])), et))
		return nil, true
	case "verifReadOnly":
		// mark the object pointed to (or backing a slice) read-only
		switch p := args[0].(type) {
		case *PtrV:
			if p.Obj != nil {
				p.Obj.ReadOnly = true
			}
		case *SliceV:
			if p.Obj != nil {
				p.Obj.ReadOnly = true
			}
		case *IfaceV:
			switch q := p.V.(type) {
			case *PtrV:
				if q.Obj != nil {
					q.Obj.ReadOnly = true
				}
			case *SliceV:
				if q.Obj != nil {
					q.Obj.ReadOnly = true
				}
			}
		}
		return nil, true
	case "verifGlobalsReadOnly":
		// from here on every package-level variable (already touched or not) is read-only
		ex.cfg.Opts["globals_readonly"] = "1"
		for _, o := range ex.globalObj {
			o.ReadOnly = true
		}
		return nil, true
	case "verifReadOnlyDeep":
		// mark every object reachable from the argument read-only (frame condition on a whole structure)
		seen := map[int]bool{}
		var walkV func(v Value, depth int)
		mark := func(o *Object, depth int) {
			if o == nil || seen[o.ID] {
				return
			}
			seen[o.ID] = true
			o.ReadOnly = true
			if cur, ok := st.heap.Get(o); ok {
				walkV(cur, depth+1)
			}
		}
		walkV = func(v Value, depth int) {
			if depth > 12 {
				return
			}
			switch q := v.(type) {
			case *PtrV:
				mark(q.Obj, depth)
			case *SliceV:
				mark(q.Obj, depth)
			case MapV:
				mark(q.Obj, depth)
			case *MapV:
				mark(q.Obj, depth)
			case *IfaceV:
				walkV(q.V, depth+1)
			case *StructV:
				for _, f := range q.F {
					walkV(f, depth+1)
				}
			case *ArrayV:
				for _, e := range q.E {
					walkV(e, depth+1)
				}
			case *ChoiceV:
				for _, a := range q.Alts {
					walkV(a.V, depth+1)
				}
			case *MapData:
				for _, e := range q.Ent {
					walkV(e.Val, depth+1)
				}
			}
		}
		walkV(args[0], 0)
		return nil, true
	case "verifDump":
		ex.note(fmt.Sprintf("dump %s = %v", constString(args[0]), args[1]))
		return nil, true
	case "verifDumpBig":
		ex.note(fmt.Sprintf("dump %s = %v", constString(args[0]), ex.load(st, args[1])))
		return nil, true
	case "verifNote":
		ex.note(constString(args[0]))
		return nil, true
	case "verifIsConcrete":
		t, ok := args[0].(*Term)
		return ts.Bool(ok && t.IsConst()), true
	case "verifCapAll":
		// verifCapAll(name string, k int) uint64: k-th definition of a captured variable
		l := ex.capAll[constString(args[0])]
		k := int(ex.constIntArg(args[1]))
		if k < 0 || k >= len(l) {
			fail("verifCapAll(%s,%d): only %d definitions captured", constString(args[0]), k, len(l))
		}
		return l[k], true
	case "verifCapCount":
		return ts.Int64(int64(len(ex.capAll[constString(args[0])]))), true
	case "verifCutOldBig", "verifCutNewBig":
		name := constString(args[0])
		k := int(ex.constIntArg(args[1]))
		tab := ex.capCutOld
		if base == "verifCutNewBig" {
			tab = ex.capCutNew
		}
		if k < 0 || k >= len(tab) {
			fail("%s(%s,%d): only %d triggers seen", base, name, k, len(tab))
		}
		t, ok := tab[k][name]
		if !ok {
			// no cut happened at this trigger (constant value): fall back to the snapshot
			t, ok = ex.capSnaps[k][name]
			if !ok {
				fail("%s(%s,%d): variable not recorded at that trigger", base, name, k)
			}
		}
		bt := fn.Signature.Results().At(0).Type().(*types.Pointer).Elem()
		o := ex.alloc(st, "cutbig", bt, t)
		return &PtrV{Obj: o}, true
	case "verifCapSnap", "verifCutOld", "verifCutNew":
		name := constString(args[0])
		k := int(ex.constIntArg(args[1]))
		var tab []map[string]*Term
		switch base {
		case "verifCapSnap":
			tab = ex.capSnaps
		case "verifCutOld":
			tab = ex.capCutOld
		default:
			tab = ex.capCutNew
		}
		if k < 0 || k >= len(tab) {
			fail("%s(%s,%d): only %d triggers seen", base, name, k, len(tab))
		}
		t, ok := tab[k][name]
		if !ok {
			fail("%s(%s,%d): variable not recorded at that trigger", base, name, k)
		}
		return t, true
	case "verifCapFinal":
		t, ok := ex.capFinal[constString(args[0])]
		if !ok {
			fail("verifCapFinal(%s): never captured", constString(args[0]))
		}
		return t, true
	case "verifTriggers":
		return ts.Int64(int64(len(ex.capSnaps))), true
	case "verifLeafInt":
		t, ok := ex.load(st, args[0]).(*Term)
		if !ok {
			fail("verifLeafInt: not an abstracted value")
		}
		return t, true
	case "verifLeafBig":
		t, ok := ex.load(st, args[0]).(*Term)
		if !ok {
			fail("verifLeafBig: not an abstracted value")
		}
		bt := fn.Signature.Results().At(0).Type().(*types.Pointer).Elem()
		o := ex.alloc(st, "leafbig", bt, t)
		return &PtrV{Obj: o}, true
	case "verifBigRange":
		// verifBigRange(name string, bits int) *big.Int : symbolic integer with |v| < 2^bits
		bitsN := ex.constIntArg(args[1])
		hi := new(big.Int).Sub(pow2(uint(bitsN)), bigOne)
		v := ex.newVar(ex.uniq(constString(args[0])), SInt, new(big.Int).Neg(hi), hi)
		bt := fn.Signature.Results().At(0).Type().(*types.Pointer).Elem()
		o := ex.alloc(st, "bigrange", bt, v)
		return &PtrV{Obj: o}, true
	case "verifRealConst":
		// verifRealConst[T](n int) T: the integer n as an element of an abstracted (real) type
		n := ex.constIntArg(args[0])
		return ts.Real(big.NewRat(n, 1)), true
	case "verifVec":
		// verifVec[T](coefs ...int) T: module element with the given coefficients
		sl := args[0].(*SliceV)
		n := ex.constIntArg(sl.Len)
		v := &VecV{}
		for i := int64(0); i < n; i++ {
			v.C = append(v.C, ex.sliceElem(st, sl, ts.Int64(i)).(*Term))
		}
		rt := fn.Signature.Results().At(0).Type()
		if d := ex.vecDim(rt); d != len(v.C) {
			fail("verifVec: type %s has dimension %d, got %d coefficients", rt, d, len(v.C))
		}
		return v, true
	case "verifCycRoot":
		// verifCycRoot[T](k int) T: the power w^k of the formal primitive root of the ring interpretation
		rt := fn.Signature.Results().At(0).Type()
		return ex.cycRoot(ex.vecDim(rt), ex.constIntArg(args[0])), true
	case "verifCycScalar":
		// verifCycScalar[T](name string) T: an arbitrary scalar (element of the coefficient field)
		rt := fn.Signature.Results().At(0).Type()
		return ex.cycScalar(ex.vecDim(rt), ex.newVar(ex.uniq(constString(args[0])), SReal, nil, nil)), true
	case "verifCycScale":
		// verifCycScale[T, E any](a T, s E) T: the ring element a multiplied by the scalar s (an
		// abstracted real element or a ring element of the same kind)
		a := args[0].(*VecV)
		switch sv := args[1].(type) {
		case *Term:
			r := &VecV{C: make([]*Term, len(a.C))}
			for i := range r.C {
				r.C[i] = ts.Mul(sv, a.C[i])
			}
			return r, true
		case *VecV:
			return ex.cycMul(a, sv), true
		}
		fail("verifCycScale: scalar is %T", args[1])
	case "verifCycCoef":
		// verifCycCoef[T, E any](a T, i int) E: coefficient i of a ring element, as an abstracted real element
		a := args[0].(*VecV)
		return a.C[ex.constIntArg(args[1])], true
	case "verifCycOf":
		// verifCycOf[T, E any](s E) T: the scalar s (abstracted real element) as a ring element
		rt := fn.Signature.Results().At(0).Type()
		return ex.cycScalar(ex.vecDim(rt), args[0].(*Term)), true
	case "verifVecBig":
		// verifVecBig[T](coefs ...*big.Int) T: module element with the given (arbitrary precision) coefficients
		sl := args[0].(*SliceV)
		n := ex.constIntArg(sl.Len)
		v := &VecV{}
		for i := int64(0); i < n; i++ {
			v.C = append(v.C, ex.ldT(st, ex.sliceElem(st, sl, ts.Int64(i))))
		}
		rt := fn.Signature.Results().At(0).Type()
		if d := ex.vecDim(rt); d != len(v.C) {
			fail("verifVecBig: type %s has dimension %d, got %d coefficients", rt, d, len(v.C))
		}
		return v, true
	case "verifVecCoefBig":
		// verifVecCoefBig[T](p *T, i int) *big.Int: coefficient i of a module element
		vv := ex.ldV(st, args[0])
		i := ex.constIntArg(args[1])
		bt := fn.Signature.Results().At(0).Type().(*types.Pointer).Elem()
		o := ex.alloc(st, "coef", bt, vv.C[i])
		return &PtrV{Obj: o}, true
	case "verifNonResidue":
		// verifNonResidue[T]() T: the non-residue atom of an abstracted tower level T
		rt := fn.Signature.Results().At(0).Type()
		return ts.Var("nonres!"+typeKey(rt), SReal, nil, nil), true
	case "verifGhostSet":
		ex.ghost[constString(args[0])] = args[1]
		return nil, true
	case "verifGhostGet":
		v, ok := ex.ghost[constString(args[0])]
		if !ok {
			fail("ghost %s unset", constString(args[0]))
		}
		return v, true
	}
	if v, ok := ex.verifAbstractIntrinsic(st, fn, base, args); ok {
		return v, true
	}
	return nil, false
}

// tighten refines variable intervals from an assumed fact (only simple var-vs-constant bounds).
func (ex *Exec) tighten(c *Term) {
	switch c.op {
	case "and":
		for _, a := range c.args {
			ex.tighten(a)
		}
	case "<=":
		a, b := c.args[0], c.args[1]
		if a.op == "var" && b.IsConst() {
			if a.hi == nil || b.ival.Cmp(a.hi) < 0 {
				a.hi = b.ival
			}
		}
		if b.op == "var" && a.IsConst() {
			if b.lo == nil || a.ival.Cmp(b.lo) > 0 {
				b.lo = a.ival
			}
		}
	case "not":
		// not (b <= a)  ==  a < b
		in := c.args[0]
		if in.op == "<=" {
			b, a := in.args[0], in.args[1]
			if a.op == "var" && b.IsConst() { // a < const
				v := new(big.Int).Sub(b.ival, bigOne)
				if a.hi == nil || v.Cmp(a.hi) < 0 {
					a.hi = v
				}
			}
			if b.op == "var" && a.IsConst() { // const < b
				v := new(big.Int).Add(a.ival, bigOne)
				if b.lo == nil || v.Cmp(b.lo) > 0 {
					b.lo = v
				}
			}
		}
	case "=":
		// var = const is left to the solver
	}
}

func (ex *Exec) flattenLeaves(st *PState, v Value, out *[]*Term) {
	switch x := v.(type) {
	case *Term:
		if x.sort == SBool {
			*out = append(*out, ex.ts.Ite(x, ex.ts.Int64(1), ex.ts.Int64(0)))
		} else if x.sort == SInt {
			*out = append(*out, x)
		} else {
			fail("verifUFAny: real-valued argument")
		}
	case *StructV:
		for _, f := range x.F {
			ex.flattenLeaves(st, f, out)
		}
	case *ArrayV:
		for _, f := range x.E {
			ex.flattenLeaves(st, f, out)
		}
	case *IfaceV:
		if x.T != nil {
			ex.flattenLeaves(st, x.V, out)
		}
	case *PtrV:
		if x.Obj != nil {
			ex.flattenLeaves(st, ex.load(st, x), out)
		}
	case *SliceV:
		n, ok := x.Len.constInt()
		if !ok {
			fail("verifUFAny: slice argument of symbolic length")
		}
		for i := int64(0); i < n.Int64(); i++ {
			ex.flattenLeaves(st, ex.sliceElem(st, x, ex.ts.Int64(i)), out)
		}
	case *ChoiceV:
		var acc []*Term
		for i := len(x.Alts) - 1; i >= 0; i-- {
			var one []*Term
			ex.flattenLeaves(st, x.Alts[i].V, &one)
			if acc == nil {
				acc = one
				continue
			}
			if len(one) != len(acc) {
				fail("verifUFAny: alternatives of a guarded choice have different shapes")
			}
			for k := range acc {
				acc[k] = ex.ts.Ite(x.Alts[i].G, one[k], acc[k])
			}
		}
		*out = append(*out, acc...)
	default:
		fail("verifUFAny: unsupported argument %T", v)
	}
}

type ufApp struct {
	args []*Term
	outs []*Term
}

func (ex *Exec) ufValue(name string, t types.Type, args []*Term) Value {
	ts := ex.ts
	app := &ufApp{args: args}
	key := fmt.Sprint(len(args))
	for _, a := range args {
		key += fmt.Sprintf(",%d", a.id)
	}
	fresh := !ex.ufAppSeen[name+"|"+key]
	ex.ufAppSeen[name+"|"+key] = true
	defer func() {
		if fresh {
			ex.ufApps[name] = append(ex.ufApps[name], app)
		}
	}()
	mk := func(leaf string, lo, hi *big.Int, s Sort) *Term {
		sorts := make([]Sort, len(args))
		for i := range sorts {
			sorts[i] = SInt
		}
		d := ts.DeclareUF(fmt.Sprintf("%s%s/%d", name, leaf, len(args)), sorts, s, lo, hi)
		r := ts.App(d, args...)
		app.outs = append(app.outs, r)
		return r
	}
	var build func(path string, t types.Type) Value
	build = func(path string, t types.Type) Value {
		if _, ok := ex.abstractSort(t); ok {
			if ex.absKind(t) == "felt" {
				q := ex.feltModulus(t)
				return mk(path, bigZero, new(big.Int).Sub(q, bigOne), SInt)
			}
			if ex.absKind(t) == "int" {
				return mk(path, nil, nil, SInt)
			}
			fail("verifUFAny: result of abstract real type")
		}
		switch u := t.Underlying().(type) {
		case *types.Basic:
			if isBool(t) {
				return mk(path, nil, nil, SBool)
			}
			if ii, ok := basicIntInfo(t); ok {
				return mk(path, ii.lo, ii.hi, SInt)
			}
		case *types.Struct:
			s := &StructV{F: make([]Value, u.NumFields())}
			for i := range s.F {
				s.F[i] = build(path+"."+u.Field(i).Name(), u.Field(i).Type())
			}
			return s
		case *types.Array:
			a := &ArrayV{E: make([]Value, u.Len())}
			for i := range a.E {
				a.E[i] = build(fmt.Sprintf("%s[%d]", path, i), u.Elem())
			}
			return a
		}
		fail("verifUFAny: unsupported result type %s", t)
		return nil
	}
	return build("", t)
}

// isSummarised reports whether a call is handled by a summary (stub or abstract-type method)
// rather than by inlining the callee's SSA.
func (ex *Exec) isSummarised(fn *ssa.Function, full string) bool {
	if _, ok := ex.recvAbstract(fn); ok {
		return true
	}
	if fn.Signature.Recv() != nil && ex.vecDim(fn.Signature.Recv().Type()) > 0 {
		return true
	}
	if fn.Pkg != nil {
		switch fn.Pkg.Pkg.Path() {
		case "bytes", "math/bits", "sync/atomic":
			return true
		}
	}
	if fn.Signature.Recv() != nil {
		rt := fn.Signature.Recv().Type()
		if p, ok := rt.(*types.Pointer); ok {
			rt = p.Elem()
		}
		if n, ok := types.Unalias(rt).(*types.Named); ok && (n.Obj().Name() == "bigEndian" || n.Obj().Name() == "littleEndian") {
			return true
		}
	}
	return false
}
