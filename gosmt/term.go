package main

// Hash-consed SMT term DAG with constant folding and integer interval tracking.

import (
	"fmt"
	"math/big"
	"sort"
	"strings"
)

type Sort int

const (
	SBool Sort = iota
	SInt
	SReal
)

func (s Sort) String() string {
	switch s {
	case SBool:
		return "Bool"
	case SInt:
		return "Int"
	case SReal:
		return "Real"
	}
	return "?"
}

type Term struct {
	id   int
	op   string // "const","var","+","*","-","div","mod","ite","=","<=","<","and","or","not","uf:<name>","/","toreal"
	args []*Term
	sort Sort
	ival *big.Int // Int const
	rval *big.Rat // Real const
	bval bool     // Bool const
	name string   // var / uf name
	lo   *big.Int // Int interval (nil = unbounded)
	hi   *big.Int
	tz   uint // known trailing zero bits (Int)
}

type TermStore struct {
	BvUF  bool // model non-linearisable bit operations as uninterpreted functions (sound over-approximation)
	tab   map[string]*Term
	next  int
	vars  []*Term
	ufs   map[string]*UFDecl
	ufOrd []string
}

type UFDecl struct {
	name string
	args []Sort
	ret  Sort
	lo   *big.Int
	hi   *big.Int
}

func NewTermStore() *TermStore {
	return &TermStore{tab: map[string]*Term{}, ufs: map[string]*UFDecl{}}
}

var (
	bigZero = big.NewInt(0)
	bigOne  = big.NewInt(1)
)

func bi(x int64) *big.Int { return big.NewInt(x) }
func pow2(k uint) *big.Int {
	return new(big.Int).Lsh(bigOne, k)
}

func (ts *TermStore) intern(t *Term) *Term {
	var sb strings.Builder
	sb.WriteString(t.op)
	sb.WriteByte('|')
	switch t.op {
	case "const":
		switch t.sort {
		case SInt:
			sb.WriteString("i" + t.ival.String())
		case SReal:
			sb.WriteString("r" + t.rval.String())
		case SBool:
			if t.bval {
				sb.WriteString("T")
			} else {
				sb.WriteString("F")
			}
		}
	case "var":
		sb.WriteString(t.name)
	default:
		for _, a := range t.args {
			fmt.Fprintf(&sb, "%d,", a.id)
		}
	}
	k := sb.String()
	if o, ok := ts.tab[k]; ok {
		return o
	}
	ts.next++
	t.id = ts.next
	ts.tab[k] = t
	return t
}

func (t *Term) IsConst() bool { return t.op == "const" }
func (t *Term) IsTrue() bool  { return t.op == "const" && t.sort == SBool && t.bval }
func (t *Term) IsFalse() bool { return t.op == "const" && t.sort == SBool && !t.bval }

func (ts *TermStore) Bool(b bool) *Term {
	return ts.intern(&Term{op: "const", sort: SBool, bval: b})
}
func (ts *TermStore) Int(v *big.Int) *Term {
	v = new(big.Int).Set(v)
	tz := uint(0)
	if v.Sign() != 0 {
		tz = new(big.Int).Abs(v).TrailingZeroBits()
	} else {
		tz = 1 << 20
	}
	return ts.intern(&Term{op: "const", sort: SInt, ival: v, lo: v, hi: v, tz: tz})
}
func (ts *TermStore) Int64(v int64) *Term { return ts.Int(big.NewInt(v)) }
func (ts *TermStore) Real(v *big.Rat) *Term {
	return ts.intern(&Term{op: "const", sort: SReal, rval: new(big.Rat).Set(v)})
}

// Var declares (or returns) a variable. lo/hi only meaningful for Int.
func (ts *TermStore) Var(name string, s Sort, lo, hi *big.Int) *Term {
	t := &Term{op: "var", sort: s, name: name, lo: lo, hi: hi}
	o := ts.intern(t)
	if o == t {
		ts.vars = append(ts.vars, o)
	}
	return o
}

func (ts *TermStore) DeclareUF(name string, args []Sort, ret Sort, lo, hi *big.Int) *UFDecl {
	if d, ok := ts.ufs[name]; ok {
		return d
	}
	d := &UFDecl{name: name, args: args, ret: ret, lo: lo, hi: hi}
	ts.ufs[name] = d
	ts.ufOrd = append(ts.ufOrd, name)
	return d
}

func (ts *TermStore) App(d *UFDecl, args ...*Term) *Term {
	if len(args) != len(d.args) {
		panic("uf arity " + d.name)
	}
	return ts.intern(&Term{op: "uf:" + d.name, args: args, sort: d.ret, name: d.name, lo: d.lo, hi: d.hi})
}

// ---------- boolean ----------

func (ts *TermStore) Not(a *Term) *Term {
	if a.IsConst() {
		return ts.Bool(!a.bval)
	}
	if a.op == "not" {
		return a.args[0]
	}
	return ts.intern(&Term{op: "not", args: []*Term{a}, sort: SBool})
}

func (ts *TermStore) And(as ...*Term) *Term {
	var out []*Term
	seen := map[int]bool{}
	for _, a := range as {
		if a.IsFalse() {
			return a
		}
		if a.IsTrue() {
			continue
		}
		if a.op == "and" {
			for _, b := range a.args {
				if !seen[b.id] {
					seen[b.id] = true
					out = append(out, b)
				}
			}
			continue
		}
		if !seen[a.id] {
			seen[a.id] = true
			out = append(out, a)
		}
	}
	for _, a := range out {
		if a.op == "not" && seen[a.args[0].id] {
			return ts.Bool(false)
		}
	}
	if len(out) == 0 {
		return ts.Bool(true)
	}
	if len(out) == 1 {
		return out[0]
	}
	return ts.intern(&Term{op: "and", args: out, sort: SBool})
}

func (ts *TermStore) Or(as ...*Term) *Term {
	var out []*Term
	seen := map[int]bool{}
	for _, a := range as {
		if a.IsTrue() {
			return a
		}
		if a.IsFalse() {
			continue
		}
		if a.op == "or" {
			for _, b := range a.args {
				if !seen[b.id] {
					seen[b.id] = true
					out = append(out, b)
				}
			}
			continue
		}
		if !seen[a.id] {
			seen[a.id] = true
			out = append(out, a)
		}
	}
	for _, a := range out {
		if a.op == "not" && seen[a.args[0].id] {
			return ts.Bool(true)
		}
	}
	if len(out) == 0 {
		return ts.Bool(false)
	}
	if len(out) == 1 {
		return out[0]
	}
	// (g and c) or (g and not c) -> g   (common after branch merge)
	if len(out) == 2 {
		if r := ts.orAbsorb(out[0], out[1]); r != nil {
			return r
		}
	}
	return ts.intern(&Term{op: "or", args: out, sort: SBool})
}

func conj(t *Term) []*Term {
	if t.op == "and" {
		return t.args
	}
	return []*Term{t}
}

func (ts *TermStore) orAbsorb(a, b *Term) *Term {
	ca, cb := conj(a), conj(b)
	if len(ca) != len(cb) {
		return nil
	}
	inb := map[int]bool{}
	for _, x := range cb {
		inb[x.id] = true
	}
	var diffA *Term
	var common []*Term
	for _, x := range ca {
		if inb[x.id] {
			common = append(common, x)
		} else {
			if diffA != nil {
				return nil
			}
			diffA = x
		}
	}
	if diffA == nil {
		return a
	}
	neg := ts.Not(diffA)
	if !inb[neg.id] {
		return nil
	}
	return ts.And(common...)
}

func (ts *TermStore) Implies(a, b *Term) *Term { return ts.Or(ts.Not(a), b) }

func (ts *TermStore) Ite(c, a, b *Term) *Term {
	if c.IsConst() {
		if c.bval {
			return a
		}
		return b
	}
	if a == b {
		return a
	}
	if a.sort != b.sort {
		panic(fmt.Sprintf("ite sort mismatch %v %v", a.sort, b.sort))
	}
	if a.sort == SBool {
		if a.IsTrue() && b.IsFalse() {
			return c
		}
		if a.IsFalse() && b.IsTrue() {
			return ts.Not(c)
		}
		if a.IsConst() || b.IsConst() {
			return ts.Or(ts.And(c, a), ts.And(ts.Not(c), b))
		}
	}
	if c.op == "not" {
		return ts.Ite(c.args[0], b, a)
	}
	// ite(c, ite(c, x, y), b) -> ite(c, x, b)
	if a.op == "ite" && a.args[0] == c {
		a = a.args[1]
	}
	if b.op == "ite" && b.args[0] == c {
		b = b.args[2]
	}
	if a == b {
		return a
	}
	t := &Term{op: "ite", args: []*Term{c, a, b}, sort: a.sort}
	if a.sort == SInt {
		t.lo = minBig(a.lo, b.lo)
		t.hi = maxBig(a.hi, b.hi)
		t.tz = a.tz
		if b.tz < t.tz {
			t.tz = b.tz
		}
	}
	return ts.intern(t)
}

// nil-aware min for lower bounds (nil = -inf) and max for upper bounds (nil = +inf)
func minBig(a, b *big.Int) *big.Int {
	if a == nil || b == nil {
		return nil
	}
	if a.Cmp(b) <= 0 {
		return a
	}
	return b
}
func maxBig(a, b *big.Int) *big.Int {
	if a == nil || b == nil {
		return nil
	}
	if a.Cmp(b) >= 0 {
		return a
	}
	return b
}

// ---------- arithmetic ----------

func (ts *TermStore) zeroOf(s Sort) *Term {
	if s == SReal {
		return ts.Real(new(big.Rat))
	}
	return ts.Int64(0)
}

func (t *Term) isZero() bool {
	if !t.IsConst() {
		return false
	}
	if t.sort == SInt {
		return t.ival.Sign() == 0
	}
	if t.sort == SReal {
		return t.rval.Sign() == 0
	}
	return false
}
func (t *Term) isOne() bool {
	if !t.IsConst() {
		return false
	}
	if t.sort == SInt {
		return t.ival.Cmp(bigOne) == 0
	}
	if t.sort == SReal {
		return t.rval.Cmp(big.NewRat(1, 1)) == 0
	}
	return false
}

func (ts *TermStore) Add(as ...*Term) *Term {
	if len(as) == 0 {
		panic("empty add")
	}
	s := as[0].sort
	ci := new(big.Int)
	cr := new(big.Rat)
	var out []*Term
	var flat func(a *Term)
	flat = func(a *Term) {
		if a.sort != s {
			panic("add sort mismatch")
		}
		if a.IsConst() {
			if s == SInt {
				ci.Add(ci, a.ival)
			} else {
				cr.Add(cr, a.rval)
			}
			return
		}
		if a.op == "+" {
			for _, b := range a.args {
				flat(b)
			}
			return
		}
		out = append(out, a)
	}
	for _, a := range as {
		flat(a)
	}
	if s == SInt && ci.Sign() != 0 {
		out = append(out, ts.Int(ci))
	}
	if s == SReal && cr.Sign() != 0 {
		out = append(out, ts.Real(cr))
	}
	if len(out) == 0 {
		return ts.zeroOf(s)
	}
	if len(out) == 1 {
		return out[0]
	}
	t := &Term{op: "+", args: out, sort: s}
	if s == SInt {
		lo, hi := new(big.Int), new(big.Int)
		tz := uint(1 << 20)
		for _, a := range out {
			if lo != nil && a.lo != nil {
				lo.Add(lo, a.lo)
			} else {
				lo = nil
			}
			if hi != nil && a.hi != nil {
				hi.Add(hi, a.hi)
			} else {
				hi = nil
			}
			if a.tz < tz {
				tz = a.tz
			}
		}
		t.lo, t.hi, t.tz = lo, hi, tz
	}
	return ts.intern(t)
}

func (ts *TermStore) Neg(a *Term) *Term {
	if a.sort == SReal {
		return ts.Mul(ts.Real(big.NewRat(-1, 1)), a)
	}
	return ts.Mul(ts.Int64(-1), a)
}

func (ts *TermStore) Sub(a, b *Term) *Term {
	if a == b {
		return ts.zeroOf(a.sort)
	}
	return ts.Add(a, ts.Neg(b))
}

func (ts *TermStore) Mul(a, b *Term) *Term {
	if a.sort != b.sort {
		panic("mul sort mismatch")
	}
	if b.IsConst() && !a.IsConst() {
		a, b = b, a
	}
	if a.IsConst() && b.IsConst() {
		if a.sort == SInt {
			return ts.Int(new(big.Int).Mul(a.ival, b.ival))
		}
		return ts.Real(new(big.Rat).Mul(a.rval, b.rval))
	}
	if a.isZero() {
		return a
	}
	if a.isOne() {
		return b
	}
	if a.IsConst() {
		// distribute constant over nested constant product / sum
		if b.op == "*" && b.args[0].IsConst() {
			return ts.Mul(ts.Mul(a, b.args[0]), b.args[1])
		}
		if b.op == "+" {
			var parts []*Term
			for _, x := range b.args {
				parts = append(parts, ts.Mul(a, x))
			}
			return ts.Add(parts...)
		}
	}
	t := &Term{op: "*", args: []*Term{a, b}, sort: a.sort}
	if a.sort == SInt {
		if a.lo != nil && a.hi != nil && b.lo != nil && b.hi != nil {
			c := []*big.Int{
				new(big.Int).Mul(a.lo, b.lo), new(big.Int).Mul(a.lo, b.hi),
				new(big.Int).Mul(a.hi, b.lo), new(big.Int).Mul(a.hi, b.hi)}
			sort.Slice(c, func(i, j int) bool { return c[i].Cmp(c[j]) < 0 })
			t.lo, t.hi = c[0], c[3]
		}
		t.tz = a.tz + b.tz
		if t.tz > 1<<20 {
			t.tz = 1 << 20
		}
	}
	return ts.intern(t)
}

// RDiv: real division
func (ts *TermStore) RDiv(a, b *Term) *Term {
	if b.IsConst() && b.rval.Sign() != 0 {
		return ts.Mul(ts.Real(new(big.Rat).Inv(b.rval)), a)
	}
	return ts.intern(&Term{op: "/", args: []*Term{a, b}, sort: SReal})
}

func floorDiv(a, m *big.Int) *big.Int {
	q, r := new(big.Int).QuoRem(a, m, new(big.Int))
	if r.Sign() < 0 {
		if m.Sign() > 0 {
			q.Sub(q, bigOne)
		} else {
			q.Add(q, bigOne)
		}
	}
	return q
}

// Div: SMT-LIB integer division (floor for positive divisor). Divisor must be a positive constant
// for interval tracking; symbolic divisors are allowed.
func (ts *TermStore) Div(a, m *Term) *Term {
	if m.IsConst() && m.ival.Sign() > 0 {
		if a.IsConst() {
			return ts.Int(floorDiv(a.ival, m.ival))
		}
		if m.isOne() {
			return a
		}
		if a.op == "ite" && (a.args[1].IsConst() || a.args[2].IsConst() || (a.args[1].op != "ite" && a.args[2].op != "ite")) {
			return ts.Ite(a.args[0], ts.Div(a.args[1], m), ts.Div(a.args[2], m))
		}
		t := &Term{op: "div", args: []*Term{a, m}, sort: SInt}
		if a.lo != nil {
			t.lo = floorDiv(a.lo, m.ival)
		}
		if a.hi != nil {
			t.hi = floorDiv(a.hi, m.ival)
		}
		if t.lo != nil && t.hi != nil && t.lo.Cmp(t.hi) == 0 {
			return ts.Int(t.lo)
		}
		// (c*x) div m where m | c ; and (c*x) div m = x div (m/c) where c | m, c > 0
		if a.op == "*" && a.args[0].IsConst() {
			q, r := new(big.Int).QuoRem(a.args[0].ival, m.ival, new(big.Int))
			if r.Sign() == 0 {
				return ts.Mul(ts.Int(q), a.args[1])
			}
			if a.args[0].ival.Sign() > 0 {
				q2, r2 := new(big.Int).QuoRem(m.ival, a.args[0].ival, new(big.Int))
				if r2.Sign() == 0 {
					return ts.Div(a.args[1], ts.Int(q2))
				}
			}
		}
		// power-of-two divisor: drop a low part that cannot carry.  floor((L + 2^k H)/2^m) =
		// floor(H / 2^(m-k)) when 0 <= L < 2^k and k <= m
		if a.op == "+" && m.ival.TrailingZeroBits() == uint(m.ival.BitLen()-1) {
			mb := uint(m.ival.BitLen() - 1)
			ks := map[uint]bool{}
			for _, x := range a.args {
				if x.tz > 0 && x.tz <= mb {
					ks[x.tz] = true
				}
			}
			var best uint
			for k := range ks {
				if k <= best {
					continue
				}
				lo, hi := new(big.Int), new(big.Int)
				ok := true
				for _, x := range a.args {
					if x.tz >= k {
						continue
					}
					if x.lo == nil || x.hi == nil {
						ok = false
						break
					}
					lo.Add(lo, x.lo)
					hi.Add(hi, x.hi)
				}
				if ok && lo.Sign() >= 0 && hi.Cmp(pow2(k)) < 0 {
					best = k
				}
			}
			if best > 0 {
				var hs []*Term
				dropped := false
				for _, x := range a.args {
					if x.tz >= best {
						hs = append(hs, x)
					} else {
						dropped = true
					}
				}
				if dropped && len(hs) > 0 {
					return ts.Div(ts.Add(hs...), m)
				}
			}
		}
		// (sum of multiples of m + small rest) div m  =  (sum of multiples)/m   when 0 <= rest < m
		if a.op == "+" {
			var mult, rest []*Term
			for _, x := range a.args {
				switch {
				case x.op == "*" && x.args[0].IsConst() && new(big.Int).Mod(x.args[0].ival, m.ival).Sign() == 0:
					mult = append(mult, ts.Mul(ts.Int(new(big.Int).Quo(x.args[0].ival, m.ival)), x.args[1]))
				case x.IsConst() && new(big.Int).Mod(x.ival, m.ival).Sign() == 0:
					mult = append(mult, ts.Int(new(big.Int).Quo(x.ival, m.ival)))
				default:
					rest = append(rest, x)
				}
			}
			if len(mult) > 0 {
				if len(rest) == 0 {
					return ts.Add(mult...)
				}
				// floor((k*m + r)/m) = k + floor(r/m) for every integer r
				r := ts.Add(rest...)
				return ts.Add(append(mult, ts.Div(r, m))...)
			}
		}
		// (x div a) div b = x div (a*b)
		if a.op == "div" && a.args[1].IsConst() && a.args[1].ival.Sign() > 0 {
			return ts.Div(a.args[0], ts.Int(new(big.Int).Mul(a.args[1].ival, m.ival)))
		}
		return ts.intern(t)
	}
	t := &Term{op: "div", args: []*Term{a, m}, sort: SInt}
	if a.lo != nil && a.lo.Sign() >= 0 && m.lo != nil && m.lo.Sign() > 0 {
		t.lo = bigZero
		t.hi = a.hi
	}
	return ts.intern(t)
}

func (ts *TermStore) Mod(a, m *Term) *Term {
	if m.IsConst() && m.ival.Sign() > 0 {
		if a.IsConst() {
			return ts.Int(new(big.Int).Mod(a.ival, m.ival))
		}
		if m.isOne() {
			return ts.Int64(0)
		}
		if a.lo != nil && a.hi != nil && a.lo.Sign() >= 0 && a.hi.Cmp(m.ival) < 0 {
			return a
		}
		if a.op == "ite" && (a.args[1].IsConst() || a.args[2].IsConst() || (a.args[1].op != "ite" && a.args[2].op != "ite")) {
			return ts.Ite(a.args[0], ts.Mod(a.args[1], m), ts.Mod(a.args[2], m))
		}
		// power-of-two modulus and enough trailing zeros
		if m.ival.TrailingZeroBits() == uint(m.ival.BitLen()-1) && a.tz >= uint(m.ival.BitLen()-1) {
			return ts.Int64(0)
		}
		// (x mod a) mod b where b | a
		if a.op == "mod" && a.args[1].IsConst() {
			r := new(big.Int).Mod(a.args[1].ival, m.ival)
			if r.Sign() == 0 {
				return ts.Mod(a.args[0], m)
			}
		}
		// drop summands that are constant multiples of m
		if a.op == "+" {
			var keep []*Term
			changed := false
			for _, x := range a.args {
				if x.op == "*" && x.args[0].IsConst() && new(big.Int).Mod(x.args[0].ival, m.ival).Sign() == 0 {
					changed = true
					continue
				}
				if x.IsConst() {
					r := new(big.Int).Mod(x.ival, m.ival)
					if r.Cmp(x.ival) != 0 {
						changed = true
						if r.Sign() != 0 {
							keep = append(keep, ts.Int(r))
						}
						continue
					}
				}
				keep = append(keep, x)
			}
			if changed {
				if len(keep) == 0 {
					return ts.Int64(0)
				}
				return ts.Mod(ts.Add(keep...), m)
			}
		}
		if a.op == "*" && a.args[0].IsConst() && new(big.Int).Mod(a.args[0].ival, m.ival).Sign() == 0 {
			return ts.Int64(0)
		}
		t := &Term{op: "mod", args: []*Term{a, m}, sort: SInt, lo: bigZero, hi: new(big.Int).Sub(m.ival, bigOne)}
		if m.ival.TrailingZeroBits() == uint(m.ival.BitLen()-1) {
			t.tz = a.tz
		}
		return ts.intern(t)
	}
	t := &Term{op: "mod", args: []*Term{a, m}, sort: SInt}
	if m.lo != nil && m.lo.Sign() > 0 && m.hi != nil {
		t.lo = bigZero
		t.hi = new(big.Int).Sub(m.hi, bigOne)
	}
	return ts.intern(t)
}

func (ts *TermStore) ToReal(a *Term) *Term {
	if a.IsConst() {
		return ts.Real(new(big.Rat).SetInt(a.ival))
	}
	return ts.intern(&Term{op: "to_real", args: []*Term{a}, sort: SReal})
}

// ---------- comparisons ----------

func (ts *TermStore) Eq(a, b *Term) *Term {
	if a == b {
		return ts.Bool(true)
	}
	if a.sort != b.sort {
		panic(fmt.Sprintf("eq sort mismatch %v %v", a.sort, b.sort))
	}
	if a.IsConst() && b.IsConst() {
		switch a.sort {
		case SInt:
			return ts.Bool(a.ival.Cmp(b.ival) == 0)
		case SReal:
			return ts.Bool(a.rval.Cmp(b.rval) == 0)
		case SBool:
			return ts.Bool(a.bval == b.bval)
		}
	}
	if a.sort == SBool {
		if a.IsConst() {
			a, b = b, a
		}
		if b.IsConst() {
			if b.bval {
				return a
			}
			return ts.Not(a)
		}
	}
	if a.sort == SInt {
		if a.isZero() {
			a, b = b, a
		}
		if b.isZero() && strings.HasPrefix(a.op, "bv:bvxor:") {
			return ts.Eq(a.args[0], a.args[1])
		}
		if b.isZero() && strings.HasPrefix(a.op, "bv:bvor:") {
			return ts.And(ts.Eq(a.args[0], b), ts.Eq(a.args[1], b))
		}
		if (a.hi != nil && b.lo != nil && a.hi.Cmp(b.lo) < 0) || (b.hi != nil && a.lo != nil && b.hi.Cmp(a.lo) < 0) {
			return ts.Bool(false)
		}
		// ite(c, k1, k2) == k  with constants
		if b.IsConst() && a.op == "ite" && a.args[1].IsConst() && a.args[2].IsConst() {
			return ts.Ite(a.args[0], ts.Eq(a.args[1], b), ts.Eq(a.args[2], b))
		}
		if a.IsConst() && b.op == "ite" && b.args[1].IsConst() && b.args[2].IsConst() {
			return ts.Eq(b, a)
		}
	}
	if a.id > b.id {
		a, b = b, a
	}
	return ts.intern(&Term{op: "=", args: []*Term{a, b}, sort: SBool})
}

func (ts *TermStore) Le(a, b *Term) *Term {
	if a == b {
		return ts.Bool(true)
	}
	if a.IsConst() && b.IsConst() {
		if a.sort == SInt {
			return ts.Bool(a.ival.Cmp(b.ival) <= 0)
		}
		return ts.Bool(a.rval.Cmp(b.rval) <= 0)
	}
	if a.sort == SInt {
		if a.hi != nil && b.lo != nil && a.hi.Cmp(b.lo) <= 0 {
			return ts.Bool(true)
		}
		if a.lo != nil && b.hi != nil && a.lo.Cmp(b.hi) > 0 {
			return ts.Bool(false)
		}
	}
	return ts.intern(&Term{op: "<=", args: []*Term{a, b}, sort: SBool})
}

func (ts *TermStore) Lt(a, b *Term) *Term {
	if a.sort == SInt {
		return ts.Not(ts.Le(b, a))
	}
	if a.IsConst() && b.IsConst() {
		return ts.Bool(a.rval.Cmp(b.rval) < 0)
	}
	return ts.intern(&Term{op: "<", args: []*Term{a, b}, sort: SBool})
}

// ---------- printing ----------

func intLit(v *big.Int) string {
	if v.Sign() < 0 {
		return "(- " + new(big.Int).Neg(v).String() + ")"
	}
	return v.String()
}

func ratLit(v *big.Rat) string {
	n, d := v.Num(), v.Denom()
	ns := new(big.Int).Abs(n).String() + ".0"
	if n.Sign() < 0 {
		ns = "(- " + ns + ")"
	}
	if d.Cmp(bigOne) == 0 {
		return ns
	}
	return "(/ " + ns + " " + d.String() + ".0)"
}

func smtName(s string) string { return "|" + strings.ReplaceAll(s, "|", "!") + "|" }

// ref returns how a term is referenced inside other terms.
func (t *Term) ref() string {
	switch t.op {
	case "const":
		switch t.sort {
		case SBool:
			if t.bval {
				return "true"
			}
			return "false"
		case SInt:
			return intLit(t.ival)
		case SReal:
			return ratLit(t.rval)
		}
	case "var":
		return smtName(t.name)
	}
	return fmt.Sprintf("t%d", t.id)
}

// body returns the SMT-LIB definition body of a non-leaf term.
func (t *Term) body() string { return t.bodyM(false) }

func (t *Term) bodyM(bvAsUF bool) string {
	var sb strings.Builder
	op := t.op
	if op == "bvorneg" {
		a := t.args[0].ref()
		return fmt.Sprintf("(- (bv2nat (bvor ((_ int2bv 64) %s) (bvneg ((_ int2bv 64) %s)))) 18446744073709551616)", a, a)
	}
	if strings.HasPrefix(op, "bv:") && bvAsUF {
		p := strings.Split(op, ":")
		return fmt.Sprintf("(|%s_%s| %s %s)", p[1], p[2], t.args[0].ref(), t.args[1].ref())
	}
	if strings.HasPrefix(op, "bv:") {
		p := strings.Split(op, ":")
		return fmt.Sprintf("(bv2nat (%s ((_ int2bv %s) %s) ((_ int2bv %s) %s)))", p[1], p[2], t.args[0].ref(), p[2], t.args[1].ref())
	}
	if strings.HasPrefix(op, "uf:") {
		op = smtName(t.name)
		if len(t.args) == 0 {
			return op
		}
	}
	sb.WriteString("(" + op)
	for _, a := range t.args {
		sb.WriteByte(' ')
		sb.WriteString(a.ref())
	}
	sb.WriteByte(')')
	return sb.String()
}

// String renders the whole term inline (debugging / evidence samples), depth limited.
func (t *Term) String() string { return t.str(6) }
func (t *Term) str(d int) string {
	if t.op == "const" || t.op == "var" {
		return t.ref()
	}
	if d == 0 {
		return "…"
	}
	op := t.op
	var parts []string
	for _, a := range t.args {
		parts = append(parts, a.str(d-1))
	}
	return "(" + op + " " + strings.Join(parts, " ") + ")"
}

// eval evaluates a term under a model of its variables (used for model-based simplification/debug).
func (t *Term) constInt() (*big.Int, bool) {
	if t.IsConst() && t.sort == SInt {
		return t.ival, true
	}
	return nil, false
}
