package main

// math/big.Int summarised as a mathematical integer (interpretation B).

import (
	"go/types"
	"math/big"

	"golang.org/x/tools/go/ssa"
)

func (ex *Exec) absT(t *Term) *Term {
	if t.lo != nil && t.lo.Sign() >= 0 {
		return t
	}
	return ex.ts.Ite(ex.ts.Lt(t, ex.ts.Int64(0)), ex.ts.Neg(t), t)
}

func (ex *Exec) needBound(t *Term, what string) *big.Int {
	a := ex.absT(t)
	if a.hi == nil {
		fail("%s needs a bounded big.Int value", what)
	}
	return a.hi
}

func (ex *Exec) bitLenTerm(t *Term, what string) *Term {
	ts := ex.ts
	a := ex.absT(t)
	if a.IsConst() {
		return ts.Int64(int64(a.ival.BitLen()))
	}
	hi := ex.needBound(t, what)
	var parts []*Term
	for k := 0; k < hi.BitLen(); k++ {
		parts = append(parts, ts.Ite(ts.Le(ts.Int(pow2(uint(k))), a), ts.Int64(1), ts.Int64(0)))
	}
	if len(parts) == 0 {
		return ts.Int64(0)
	}
	return ts.Add(parts...)
}

func (ex *Exec) byteLenTerm(t *Term, what string) *Term {
	ts := ex.ts
	a := ex.absT(t)
	if a.IsConst() {
		return ts.Int64(int64((a.ival.BitLen() + 7) / 8))
	}
	hi := ex.needBound(t, what)
	var parts []*Term
	for k := 0; k < (hi.BitLen()+7)/8; k++ {
		parts = append(parts, ts.Ite(ts.Le(ts.Int(pow2(uint(8*k))), a), ts.Int64(1), ts.Int64(0)))
	}
	if len(parts) == 0 {
		return ts.Int64(0)
	}
	return ts.Add(parts...)
}

func (ex *Exec) bigMethod(st *PState, fn *ssa.Function, args []Value) Value {
	ts := ex.ts
	name := fn.Name()
	recv := args[0]
	L := func(i int) *Term { return ex.ldT(st, args[i]) }
	set := func(v *Term) Value {
		ex.store(st, recv, v)
		return recv
	}
	z0 := ts.Int64(0)
	sgn := func(t *Term) *Term {
		return ts.Ite(ts.Lt(t, z0), ts.Int64(-1), ts.Ite(ts.Eq(t, z0), z0, ts.Int64(1)))
	}
	cmp := func(a, b *Term) *Term {
		return ts.Ite(ts.Lt(a, b), ts.Int64(-1), ts.Ite(ts.Eq(a, b), z0, ts.Int64(1)))
	}
	switch name {
	case "Set":
		return set(L(1))
	case "SetInt64", "SetUint64":
		return set(args[1].(*Term))
	case "Add":
		return set(ts.Add(L(1), L(2)))
	case "Sub":
		return set(ts.Sub(L(1), L(2)))
	case "Mul":
		return set(ts.Mul(L(1), L(2)))
	case "Neg":
		return set(ts.Neg(L(1)))
	case "Abs":
		return set(ex.absT(L(1)))
	case "Cmp":
		return cmp(L(0), L(1))
	case "CmpAbs":
		return cmp(ex.absT(L(0)), ex.absT(L(1)))
	case "Sign":
		return sgn(L(0))
	case "Mod":
		x, y := L(1), L(2)
		ex.panicObligation(st, ts.Eq(y, z0), "big.Int.Mod: division by zero")
		return set(ts.Mod(x, ex.absT(y)))
	case "Div":
		x, y := L(1), L(2)
		ex.panicObligation(st, ts.Eq(y, z0), "big.Int.Div: division by zero")
		if y.lo != nil && y.lo.Sign() > 0 {
			return set(ts.Div(x, y))
		}
		q := ts.Div(x, ex.absT(y))
		return set(ts.Ite(ts.Lt(y, z0), ts.Neg(q), q))
	case "DivMod":
		x, y := L(1), L(2)
		ex.panicObligation(st, ts.Eq(y, z0), "big.Int.DivMod: division by zero")
		q := ts.Div(x, ex.absT(y))
		q = ts.Ite(ts.Lt(y, z0), ts.Neg(q), q)
		ex.store(st, args[3], ts.Mod(x, ex.absT(y)))
		return &TupleV{V: []Value{set(q), args[3]}}
	case "Quo", "Rem", "QuoRem":
		x, y := L(1), L(2)
		ex.panicObligation(st, ts.Eq(y, z0), "big.Int.Quo: division by zero")
		ax, ay := ex.absT(x), ex.absT(y)
		q := ts.Div(ax, ay)
		neg := ts.Not(ts.Eq(ts.Lt(x, z0), ts.Lt(y, z0)))
		q = ts.Ite(neg, ts.Neg(q), q)
		r := ts.Mod(ax, ay)
		r = ts.Ite(ts.Lt(x, z0), ts.Neg(r), r)
		switch name {
		case "Quo":
			return set(q)
		case "Rem":
			return set(r)
		}
		ex.store(st, args[3], r)
		return &TupleV{V: []Value{set(q), args[3]}}
	case "Rsh", "Lsh":
		x := L(1)
		n := args[2].(*Term)
		if c, ok := n.constInt(); ok {
			p := ts.Int(pow2(uint(c.Int64())))
			if name == "Rsh" {
				return set(ts.Div(x, p))
			}
			return set(ts.Mul(p, x))
		}
		if n.hi == nil || !n.hi.IsInt64() || n.hi.Int64() > 4096 {
			// a wrapped conversion uint(e) of a small signed amount that the path guard makes non-negative
			if src, ok := ex.modSrc[n.id]; ok && src.hi != nil && src.hi.IsInt64() && src.hi.Int64() <= 4096 &&
				ex.guardDecides(st, ts.Le(z0, src)) > 0 {
				n = src
			}
		}
		if n.hi == nil || !n.hi.IsInt64() || n.hi.Int64() > 4096 {
			fail("big.Int shift by unbounded amount")
		}
		var res *Term
		for k := n.hi.Int64(); k >= 0; k-- {
			p := ts.Int(pow2(uint(k)))
			var v *Term
			if name == "Rsh" {
				v = ts.Div(x, p)
			} else {
				v = ts.Mul(p, x)
			}
			if res == nil {
				res = v
			} else {
				res = ts.Ite(ts.Eq(n, ts.Int64(k)), v, res)
			}
		}
		return set(res)
	case "Bit":
		x := L(0)
		i := args[1].(*Term)
		c, ok := i.constInt()
		if !ok {
			if i.lo == nil || i.hi == nil || i.lo.Sign() < 0 || !i.hi.IsInt64() || i.hi.Int64() > 8192 {
				// negative indices panic in math/big; callers guard them
				if i.hi == nil || !i.hi.IsInt64() || i.hi.Int64() > 8192 {
					fail("big.Int.Bit with unbounded symbolic index")
				}
			}
			lo := int64(0)
			if i.lo != nil && i.lo.Sign() > 0 {
				lo = i.lo.Int64()
			}
			res := ts.Int64(0)
			for k := i.hi.Int64(); k >= lo; k-- {
				b := ex.modC(ex.divC(x, pow2(uint(k))), bi(2))
				res = ts.Ite(ts.Eq(i, ts.Int64(k)), b, res)
			}
			return res
		}
		return ex.modC(ex.divC(x, pow2(uint(c.Int64()))), bi(2))
	case "BitLen":
		return ex.bitLenTerm(L(0), "big.Int.BitLen")
	case "IsInt64":
		x := L(0)
		return ts.And(ts.Le(ts.Int(new(big.Int).Neg(pow2(63))), x), ts.Lt(x, ts.Int(pow2(63))))
	case "IsUint64":
		x := L(0)
		return ts.And(ts.Le(z0, x), ts.Lt(x, ts.Int(pow2(64))))
	case "Uint64":
		return ts.Mod(ex.absT(L(0)), ts.Int(pow2(64)))
	case "Int64":
		x := L(0)
		lowAbs := ts.Mod(ex.absT(x), ts.Int(pow2(64)))
		v := ts.Ite(ts.Lt(x, z0), ts.Neg(lowAbs), lowAbs)
		ii, _ := basicIntInfo(types.Typ[types.Int64])
		return ex.wrap(v, ii)
	case "SetBytes":
		buf := args[1].(*SliceV)
		return set(ex.bytesToInt(st, buf))
	case "FillBytes":
		x := ex.absT(L(0))
		buf := args[1].(*SliceV)
		n, ok := buf.Len.constInt()
		if !ok {
			fail("FillBytes into buffer of symbolic length")
		}
		nn := n.Int64()
		ex.panicObligation(st, ts.Le(ts.Int(pow2(uint(8*nn))), x), "big.Int.FillBytes: buffer too small")
		for i := int64(0); i < nn; i++ {
			b := ts.Mod(ts.Div(x, ts.Int(pow2(uint(8*(nn-1-i))))), ts.Int64(256))
			ex.sliceStore(st, buf, ts.Int64(i), b)
		}
		return buf
	case "Bytes":
		x := ex.absT(L(0))
		hi := ex.needBound(x, "big.Int.Bytes")
		N := int64((hi.BitLen() + 7) / 8)
		arr := &ArrayV{E: make([]Value, N)}
		for i := int64(0); i < N; i++ {
			arr.E[i] = ts.Mod(ts.Div(x, ts.Int(pow2(uint(8*(N-1-i))))), ts.Int64(256))
		}
		o := ex.alloc(st, "big.Bytes", types.NewArray(types.Typ[types.Uint8], N), arr)
		ln := ex.byteLenTerm(x, "big.Int.Bytes")
		return &SliceV{Obj: o, Off: ts.Sub(ts.Int64(N), ln), Len: ln, Cap: ln}
	case "SetString":
		s := constString(args[1])
		base := ex.constIntArg(args[2])
		v, ok := new(big.Int).SetString(s, int(base))
		if !ok {
			return &TupleV{V: []Value{&PtrV{}, ts.Bool(false)}}
		}
		return &TupleV{V: []Value{set(ts.Int(v)), ts.Bool(true)}}
	case "String", "Text":
		x := L(0)
		if x.IsConst() {
			b := 10
			if name == "Text" {
				b = int(ex.constIntArg(args[1]))
			}
			return &StringV{S: x.ival.Text(b)}
		}
		return &StringV{S: "<big>"}
	case "Exp":
		x, y := L(1), L(2)
		var m *Term
		if p, ok := args[3].(*PtrV); ok && p.Obj != nil {
			m = ex.ldT(st, p)
		}
		if x.IsConst() && y.IsConst() && (m == nil || m.IsConst()) {
			var mm *big.Int
			if m != nil {
				mm = m.ival
			}
			return set(ts.Int(new(big.Int).Exp(x.ival, y.ival, mm)))
		}
		if y.IsConst() && y.ival.IsInt64() && y.ival.Int64() >= 0 && y.ival.Int64() <= 16 {
			r := ts.Int64(1)
			for i := int64(0); i < y.ival.Int64(); i++ {
				r = ts.Mul(r, x)
			}
			if m != nil {
				r = ts.Ite(ts.Eq(m, z0), r, ts.Mod(r, ex.absT(m)))
			}
			return set(r)
		}
		fail("symbolic big.Int.Exp")
	case "Sqrt":
		x := L(1)
		if x.IsConst() {
			return set(ts.Int(new(big.Int).Sqrt(x.ival)))
		}
		fail("symbolic big.Int.Sqrt")
	case "ModInverse":
		g, n := L(1), L(2)
		if g.IsConst() && n.IsConst() {
			r := new(big.Int).ModInverse(g.ival, n.ival)
			if r == nil {
				return &PtrV{}
			}
			return set(ts.Int(r))
		}
		if n.IsConst() && n.ival.Sign() > 0 && n.ival.ProbablyPrime(20) {
			// prime modulus: the inverse exists exactly for g != 0 mod n; it is an opaque function of
			// the residue with inv*g = 1 left uninterpreted (range [1, n-1])
			gm := ts.Mod(g, n)
			d := ts.DeclareUF("modinv!"+n.ival.Text(62), []Sort{SInt}, SInt, bigOne, new(big.Int).Sub(n.ival, bigOne))
			inv := ts.App(d, gm)
			ok := ts.Not(ts.Eq(gm, z0))
			old := L(0)
			ex.store(st, recv, ts.Ite(ok, inv, old))
			return ex.mergeVal(ok, recv, &PtrV{})
		}
		fail("symbolic big.Int.ModInverse with a non-prime or symbolic modulus")
	case "ProbablyPrime":
		x := L(0)
		if x.IsConst() {
			return ts.Bool(x.ival.ProbablyPrime(int(ex.constIntArg(args[1]))))
		}
		fail("symbolic ProbablyPrime")
	case "TrailingZeroBits":
		x := L(0)
		if x.IsConst() {
			return ts.Int64(int64(x.ival.TrailingZeroBits()))
		}
		fail("symbolic TrailingZeroBits")
	case "Bits":
		x := ex.absT(L(0))
		hi := ex.needBound(x, "big.Int.Bits")
		N := int64((hi.BitLen() + 63) / 64)
		wt := fn.Signature.Results().At(0).Type().Underlying().(*types.Slice).Elem()
		arr := &ArrayV{E: make([]Value, N)}
		var parts []*Term
		for i := int64(0); i < N; i++ {
			arr.E[i] = ts.Mod(ts.Div(x, ts.Int(pow2(uint(64*i)))), ts.Int(pow2(64)))
			parts = append(parts, ts.Ite(ts.Le(ts.Int(pow2(uint(64*i))), x), ts.Int64(1), ts.Int64(0)))
		}
		o := ex.alloc(st, "big.Bits", types.NewArray(wt, N), arr)
		ln := ts.Int64(0)
		if len(parts) > 0 {
			ln = ts.Add(parts...)
		}
		return &SliceV{Obj: o, Off: ts.Int64(0), Len: ln, Cap: ln}
	case "SetBits":
		buf := args[1].(*SliceV)
		n, ok := buf.Len.constInt()
		if !ok {
			fail("SetBits with symbolic length")
		}
		var parts []*Term
		for i := int64(0); i < n.Int64(); i++ {
			parts = append(parts, ts.Mul(ts.Int(pow2(uint(64*i))), ex.sliceElem(st, buf, ts.Int64(i)).(*Term)))
		}
		if len(parts) == 0 {
			return set(z0)
		}
		return set(ts.Add(parts...))
	case "SetBit":
		x := L(1)
		i := ex.constIntArg(args[2])
		b := args[3].(*Term)
		p := ts.Int(pow2(uint(i)))
		cur := ts.Mod(ts.Div(x, p), ts.Int64(2))
		return set(ts.Add(x, ts.Mul(p, ts.Sub(b, cur))))
	}
	fail("no summary for big.Int method %s", name)
	return nil
}

// bytesToInt interprets a byte slice (possibly of symbolic length) as a big-endian integer.
func (ex *Exec) bytesToInt(st *PState, buf *SliceV) *Term {
	ts := ex.ts
	if c, ok := buf.Len.constInt(); ok {
		var parts []*Term
		n := c.Int64()
		// runs of bytes that are the complete big-endian encoding of a known integer are replaced
		// by that integer
		elems := make([]*Term, n)
		for i := int64(0); i < n; i++ {
			elems[i], _ = ex.sliceElem(st, buf, ts.Int64(i)).(*Term)
		}
		for i := int64(0); i < n; {
			b := elems[i]
			if b == nil {
				fail("non-integer byte in slice")
			}
			if p, has := ex.byteProv[b.id]; has && p.i == 0 && i+int64(p.n) <= n {
				okRun := true
				for k := 1; k < p.n; k++ {
					e := elems[i+int64(k)]
					if e == nil {
						okRun = false
						break
					}
					pk, hk := ex.byteProv[e.id]
					if !hk || pk.src != p.src || pk.n != p.n || pk.i != k {
						okRun = false
						break
					}
				}
				if okRun {
					parts = append(parts, ts.Mul(ts.Int(pow2(uint(8*(n-i-int64(p.n))))), p.src))
					i += int64(p.n)
					continue
				}
			}
			parts = append(parts, ts.Mul(ts.Int(pow2(uint(8*(n-1-i)))), b))
			i++
		}
		if len(parts) == 0 {
			return ts.Int64(0)
		}
		return ts.Add(parts...)
		for i := int64(0); i < n; i++ {
			b := ex.sliceElem(st, buf, ts.Int64(i)).(*Term)
			parts = append(parts, ts.Mul(ts.Int(pow2(uint(8*(n-1-i)))), b))
		}
		if len(parts) == 0 {
			return ts.Int64(0)
		}
		return ts.Add(parts...)
	}
	if buf.Len.hi == nil || !buf.Len.hi.IsInt64() || buf.Len.hi.Int64() > 1<<16 {
		fail("SetBytes with unbounded length")
	}
	acc := ts.Int64(0)
	for i := int64(0); i < buf.Len.hi.Int64(); i++ {
		it := ts.Int64(i)
		in := ts.Lt(it, buf.Len)
		if in.IsFalse() {
			break
		}
		b := ex.sliceElemGuarded(st, buf, it).(*Term)
		acc = ts.Ite(in, ts.Add(ts.Mul(ts.Int64(256), acc), b), acc)
	}
	return acc
}
