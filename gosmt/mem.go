package main

import (
	"fmt"
	"go/types"
	"math/big"
	"os"
	"strings"
	"time"
)

type execError struct{ msg string }

func (e execError) Error() string { return e.msg }

func fail(format string, args ...interface{}) {
	panic(execError{fmt.Sprintf(format, args...)})
}

// ---------- type helpers ----------

type intInfo struct {
	bits   uint
	signed bool
	lo, hi *big.Int
}

func basicIntInfo(t types.Type) (intInfo, bool) {
	b, ok := t.Underlying().(*types.Basic)
	if !ok {
		return intInfo{}, false
	}
	var bits uint
	signed := false
	switch b.Kind() {
	case types.Int8:
		bits, signed = 8, true
	case types.Int16:
		bits, signed = 16, true
	case types.Int32:
		bits, signed = 32, true
	case types.Int64, types.Int, types.UntypedInt, types.UntypedRune:
		bits, signed = 64, true
	case types.Uint8:
		bits = 8
	case types.Uint16:
		bits = 16
	case types.Uint32:
		bits = 32
	case types.Uint64, types.Uint, types.Uintptr:
		bits = 64
	default:
		return intInfo{}, false
	}
	ii := intInfo{bits: bits, signed: signed}
	if signed {
		ii.lo = new(big.Int).Neg(pow2(bits - 1))
		ii.hi = new(big.Int).Sub(pow2(bits-1), bigOne)
	} else {
		ii.lo = bigZero
		ii.hi = new(big.Int).Sub(pow2(bits), bigOne)
	}
	return ii, true
}

func isBool(t types.Type) bool {
	b, ok := t.Underlying().(*types.Basic)
	return ok && (b.Kind() == types.Bool || b.Kind() == types.UntypedBool)
}
func isString(t types.Type) bool {
	b, ok := t.Underlying().(*types.Basic)
	return ok && (b.Kind() == types.String || b.Kind() == types.UntypedString)
}
func isFloat(t types.Type) bool {
	b, ok := t.Underlying().(*types.Basic)
	return ok && (b.Kind() == types.Float64 || b.Kind() == types.Float32 || b.Kind() == types.UntypedFloat)
}

func typeKey(t types.Type) string {
	return types.TypeString(t, nil)
}

// abstractSort reports whether values of type t are abstracted to a single SMT leaf.
func (ex *Exec) abstractSort(t types.Type) (Sort, bool) {
	n, ok := t.(*types.Named)
	if !ok {
		if a, ok2 := t.(*types.Alias); ok2 {
			return ex.abstractSort(types.Unalias(a))
		}
		return 0, false
	}
	if len(ex.cfg.Abstract) == 0 {
		return 0, false
	}
	key := typeKey(n)
	if s, ok := ex.absCache[key]; ok {
		return s.s, s.ok
	}
	res := absRes{}
	for pat, kind := range ex.cfg.Abstract {
		if key == pat || strings.HasSuffix(key, "/"+pat) {
			switch kind {
			case "real":
				res = absRes{SReal, true}
			case "int", "felt", "xexp":
				res = absRes{SInt, true}
			}
		}
	}
	ex.absCache[key] = res
	return res.s, res.ok
}

type absRes struct {
	s  Sort
	ok bool
}

func (ex *Exec) zeroValue(t types.Type) Value {
	if n := ex.vecDim(t); n > 0 {
		if _, isPtr := t.(*types.Pointer); !isPtr {
			if ex.isCyc(t) {
				return ex.cycZero(n)
			}
			return ex.vecZero(n)
		}
	}
	if s, ok := ex.abstractSort(t); ok {
		return ex.ts.zeroOf(s)
	}
	switch u := t.Underlying().(type) {
	case *types.Basic:
		if isBool(t) {
			return ex.ts.Bool(false)
		}
		if isString(t) {
			return &StringV{}
		}
		if _, ok := basicIntInfo(t); ok {
			return ex.ts.Int64(0)
		}
		if isFloat(t) {
			return ex.ts.Real(new(big.Rat))
		}
		if u.Kind() == types.UnsafePointer {
			return &PtrV{}
		}
		if u.Kind() == types.UntypedNil {
			return nil
		}
		return &Opaque{"zero of " + t.String()}
	case *types.Pointer:
		return &PtrV{}
	case *types.Slice:
		z := ex.ts.Int64(0)
		return &SliceV{Off: z, Len: z, Cap: z}
	case *types.Struct:
		s := &StructV{F: make([]Value, u.NumFields())}
		for i := range s.F {
			s.F[i] = ex.zeroValue(u.Field(i).Type())
		}
		return s
	case *types.Array:
		n := int(u.Len())
		a := &ArrayV{E: make([]Value, n)}
		if n > 0 {
			z := ex.zeroValue(u.Elem())
			for i := range a.E {
				a.E[i] = z
			}
		}
		return a
	case *types.Interface:
		return &IfaceV{}
	case *types.Map:
		return &MapV{}
	case *types.Chan:
		return &ChanV{}
	case *types.Signature:
		return &FuncV{}
	case *types.Tuple:
		tv := &TupleV{V: make([]Value, u.Len())}
		for i := range tv.V {
			tv.V[i] = ex.zeroValue(u.At(i).Type())
		}
		return tv
	}
	return &Opaque{"zero of " + t.String()}
}

// freshValue builds a fully symbolic value of type t; leaves are named name+path.
func (ex *Exec) freshValue(name string, t types.Type) Value {
	if s, ok := ex.abstractSort(t); ok {
		if ex.absKind(t) == "felt" {
			q := ex.feltModulus(t)
			return ex.newVar(name, SInt, bigZero, new(big.Int).Sub(q, bigOne))
		}
		return ex.newVar(name, s, nil, nil)
	}
	switch u := t.Underlying().(type) {
	case *types.Basic:
		if isBool(t) {
			return ex.newVar(name, SBool, nil, nil)
		}
		if ii, ok := basicIntInfo(t); ok {
			return ex.newVar(name, SInt, ii.lo, ii.hi)
		}
	case *types.Struct:
		s := &StructV{F: make([]Value, u.NumFields())}
		for i := range s.F {
			s.F[i] = ex.freshValue(name+"."+u.Field(i).Name(), u.Field(i).Type())
		}
		return s
	case *types.Array:
		n := int(u.Len())
		a := &ArrayV{E: make([]Value, n)}
		for i := range a.E {
			a.E[i] = ex.freshValue(fmt.Sprintf("%s[%d]", name, i), u.Elem())
		}
		return a
	}
	fail("cannot make symbolic value of type %s", t)
	return nil
}

func (ex *Exec) newVar(name string, s Sort, lo, hi *big.Int) *Term {
	if ex.declared[name] {
		fail("duplicate nondeterministic name %q", name)
	}
	ex.declared[name] = true
	if ex.pinRe != nil && s == SInt && ex.pinRe.MatchString(name) {
		if val, ok := ex.pinVals[name]; ok {
			// semi-concretisation: this input is fixed to the value of a previous model, which makes
			// products with it linear (exact) instead of uninterpreted
			ex.note("pinned input " + name)
			return ex.ts.Int(val)
		}
	}
	v := ex.ts.Var(name, s, lo, hi)
	ex.nondets = append(ex.nondets, v)
	return v
}

// uniq makes intrinsic-level names unique in call order (mirrored by the native replay prelude).
func (ex *Exec) uniq(name string) string {
	k := ex.nameCount[name]
	ex.nameCount[name] = k + 1
	if k > 0 {
		return fmt.Sprintf("%s#%d", name, k)
	}
	return name
}

// ---------- objects ----------

func (ex *Exec) newObject(name string, t types.Type) *Object {
	ex.nextObj++
	return &Object{ID: ex.nextObj, Name: name, Type: t}
}

func (ex *Exec) alloc(st *PState, name string, t types.Type, init Value) *Object {
	o := ex.newObject(name, t)
	st.heap.Set(o, init)
	return o
}

// ---------- load / store ----------

func (ex *Exec) objValue(st *PState, o *Object) Value {
	v, ok := st.heap.Get(o)
	if ok {
		return v
	}
	if iv, ok := ex.globalInit[o.ID]; ok {
		return iv
	}
	fail("object %s not in heap (use after scope?)", o)
	return nil
}

func walk(v Value, path []int) Value {
	for _, i := range path {
		switch c := v.(type) {
		case *StructV:
			v = c.F[i]
		case *ArrayV:
			if i < 0 || i >= len(c.E) {
				fail("internal: path index %d out of range %d", i, len(c.E))
			}
			v = c.E[i]
		default:
			fail("internal: walk into %T", v)
		}
	}
	return v
}

func update(v Value, path []int, nv Value) Value {
	if len(path) == 0 {
		return nv
	}
	i := path[0]
	switch c := v.(type) {
	case *StructV:
		n := &StructV{F: make([]Value, len(c.F))}
		copy(n.F, c.F)
		n.F[i] = update(c.F[i], path[1:], nv)
		return n
	case *ArrayV:
		n := &ArrayV{E: make([]Value, len(c.E))}
		copy(n.E, c.E)
		n.E[i] = update(c.E[i], path[1:], nv)
		return n
	}
	fail("internal: update into %T", v)
	return nil
}

func (ex *Exec) load(st *PState, p Value) Value {
	switch q := p.(type) {
	case *PtrV:
		if q.Obj == nil {
			ex.panicObligation(st, ex.ts.Bool(true), "nil pointer dereference")
			return nil
		}
		if q.Sub != nil {
			return ex.loadSub(st, q)
		}
		if q.Limb != 0 {
			cur, ok := walk(ex.objValue(st, q.Obj), q.Path).(*Term)
			if ok && cur.isZero() {
				return ex.ts.Int64(0)
			}
			if ok && q.Limb == 1 {
				if w, ok := ex.rawLimb0(st, cur); ok {
					return w
				}
			}
			fail("limb access into abstracted element (only zero elements may be accessed by limb)")
		}
		return ex.underGuard(st, walk(ex.objValue(st, q.Obj), q.Path))
	case *ChoiceV:
		var res Value
		first := true
		// evaluate from last to first to build ite chain
		for i := len(q.Alts) - 1; i >= 0; i-- {
			a := q.Alts[i]
			pv := a.V.(*PtrV)
			if pv.Obj == nil {
				ex.panicObligation(st, a.G, "nil pointer dereference")
				continue
			}
			var v Value
			if pv.Sub != nil {
				v = ex.loadSub(st, pv)
			} else {
				v = walk(ex.objValue(st, pv.Obj), pv.Path)
			}
			if first {
				res = v
				first = false
			} else {
				res = ex.mergeVal(a.G, v, res)
			}
		}
		return res
	}
	fail("load from %T", p)
	return nil
}

func (ex *Exec) store(st *PState, p Value, v Value) {
	switch q := p.(type) {
	case *PtrV:
		if q.Obj == nil {
			ex.panicObligation(st, ex.ts.Bool(true), "nil pointer dereference (store)")
			return
		}
		ex.checkWritable(st, q.Obj, ex.ts.Bool(true))
		if q.Sub != nil {
			ex.storeSub(st, q, v)
			return
		}
		if q.Limb != 0 {
			ex.storeLimb(st, q, v)
			return
		}
		cur := ex.objValue(st, q.Obj)
		st.heap.Set(q.Obj, update(cur, q.Path, v))
	case *ChoiceV:
		for _, a := range q.Alts {
			pv := a.V.(*PtrV)
			if pv.Obj == nil {
				ex.panicObligation(st, a.G, "nil pointer dereference (store)")
				continue
			}
			ex.checkWritable(st, pv.Obj, a.G)
			if pv.Sub != nil {
				old := ex.loadSub(st, pv)
				ex.storeSub(st, pv, ex.mergeVal(a.G, v, old))
				continue
			}
			cur := ex.objValue(st, pv.Obj)
			old := walk(cur, pv.Path)
			st.heap.Set(pv.Obj, update(cur, pv.Path, ex.mergeVal(a.G, v, old)))
		}
	default:
		fail("store to %T", p)
	}
}

func (ex *Exec) checkWritable(st *PState, o *Object, g *Term) {
	if o.ReadOnly {
		ex.addObligation(st, ex.ts.Not(g), "frame", "write to read-only object "+o.Name)
	}
}

// ---------- merging ----------

// mergeVal returns the value "if g then a else b".
func (ex *Exec) mergeVal(g *Term, a, b Value) Value {
	if g.IsTrue() {
		return a
	}
	if g.IsFalse() {
		return b
	}
	if a == nil {
		return b
	}
	if b == nil {
		return a
	}
	if a == b {
		return a
	}
	switch x := a.(type) {
	case *Term:
		if y, ok := b.(*Term); ok && x.sort == y.sort {
			return ex.ts.Ite(g, x, y)
		}
	case *StructV:
		if y, ok := b.(*StructV); ok && len(x.F) == len(y.F) {
			n := &StructV{F: make([]Value, len(x.F))}
			for i := range x.F {
				n.F[i] = ex.mergeVal(g, x.F[i], y.F[i])
			}
			return n
		}
	case *ArrayV:
		if y, ok := b.(*ArrayV); ok && len(x.E) == len(y.E) {
			n := &ArrayV{E: make([]Value, len(x.E))}
			for i := range x.E {
				n.E[i] = ex.mergeVal(g, x.E[i], y.E[i])
			}
			return n
		}
	case *VecV:
		if y, ok := b.(*VecV); ok && len(x.C) == len(y.C) {
			n := &VecV{C: make([]*Term, len(x.C))}
			for i := range x.C {
				n.C[i] = ex.ts.Ite(g, x.C[i], y.C[i])
			}
			return n
		}
	case *TupleV:
		if y, ok := b.(*TupleV); ok && len(x.V) == len(y.V) {
			n := &TupleV{V: make([]Value, len(x.V))}
			for i := range x.V {
				n.V[i] = ex.mergeVal(g, x.V[i], y.V[i])
			}
			return n
		}
	case *PtrV:
		if y, ok := b.(*PtrV); ok && x.Obj == y.Obj && samePath(x.Path, y.Path) && sameSub(x.Sub, y.Sub) {
			return x
		}
	case *SliceV:
		if y, ok := b.(*SliceV); ok && x.Obj == y.Obj && samePath(x.Path, y.Path) {
			return &SliceV{Obj: x.Obj, Path: x.Path, Off: ex.ts.Ite(g, x.Off, y.Off), Len: ex.ts.Ite(g, x.Len, y.Len), Cap: ex.ts.Ite(g, x.Cap, y.Cap)}
		}
	case *StringV:
		if y, ok := b.(*StringV); ok {
			if x.Bytes == nil && y.Bytes == nil && x.S == y.S {
				return x
			}
			xb, yb := ex.strBytes(x), ex.strBytes(y)
			if len(xb) == len(yb) {
				n := &StringV{Bytes: make([]*Term, len(xb))}
				for i := range xb {
					n.Bytes[i] = ex.ts.Ite(g, xb[i], yb[i])
				}
				return n
			}
		}
	case *IfaceV:
		if y, ok := b.(*IfaceV); ok {
			if x.T == nil && y.T == nil {
				return x
			}
			if x.T != nil && y.T != nil && types.Identical(x.T, y.T) {
				return &IfaceV{T: x.T, V: ex.mergeVal(g, x.V, y.V)}
			}
		}
	case *FuncV:
		if y, ok := b.(*FuncV); ok && x.Fn == y.Fn && x.Builtin == y.Builtin && len(x.Bindings) == len(y.Bindings) {
			same := true
			for i := range x.Bindings {
				if x.Bindings[i] != y.Bindings[i] {
					same = false
				}
			}
			if same {
				return x
			}
			n := &FuncV{Fn: x.Fn, Builtin: x.Builtin, Bindings: make([]Value, len(x.Bindings))}
			for i := range x.Bindings {
				n.Bindings[i] = ex.mergeVal(g, x.Bindings[i], y.Bindings[i])
			}
			return n
		}
	case *MapV:
		if y, ok := b.(*MapV); ok && x.Obj == y.Obj {
			return x
		}
	case *ChanV:
		if y, ok := b.(*ChanV); ok && x.Obj == y.Obj {
			return x
		}
	case *MapData:
		if y, ok := b.(*MapData); ok {
			return ex.mergeMap(g, x, y)
		}
	case *ChanData:
		if y, ok := b.(*ChanData); ok && len(x.Q) == len(y.Q) && x.Closed == y.Closed {
			n := &ChanData{Closed: x.Closed, Q: make([]Value, len(x.Q))}
			for i := range x.Q {
				n.Q[i] = ex.mergeVal(g, x.Q[i], y.Q[i])
			}
			return n
		}
		fail("merge of channels with different queue lengths")
	}
	// generic guarded choice
	var alts []Alt
	add := func(gg *Term, v Value) {
		if gg.IsFalse() {
			return
		}
		for i := range alts {
			if sameSimple(alts[i].V, v) {
				alts[i].G = ex.ts.Or(alts[i].G, gg)
				return
			}
		}
		alts = append(alts, Alt{gg, v})
	}
	flat := func(gg *Term, v Value) {
		if c, ok := v.(*ChoiceV); ok {
			for _, a := range c.Alts {
				add(ex.ts.And(gg, a.G), a.V)
			}
		} else {
			add(gg, v)
		}
	}
	flat(g, a)
	flat(ex.ts.Not(g), b)
	if len(alts) == 1 {
		return alts[0].V
	}
	return &ChoiceV{Alts: alts}
}

func sameSimple(a, b Value) bool {
	if a == b {
		return true
	}
	switch x := a.(type) {
	case *PtrV:
		y, ok := b.(*PtrV)
		return ok && x.Obj == y.Obj && samePath(x.Path, y.Path) && sameSub(x.Sub, y.Sub)
	case *SliceV:
		y, ok := b.(*SliceV)
		return ok && x.Obj == y.Obj && samePath(x.Path, y.Path) && x.Off == y.Off && x.Len == y.Len && x.Cap == y.Cap
	case *IfaceV:
		y, ok := b.(*IfaceV)
		if !ok {
			return false
		}
		if x.T == nil || y.T == nil {
			return x.T == nil && y.T == nil
		}
		return types.Identical(x.T, y.T) && sameSimple(x.V, y.V)
	case *MapV:
		y, ok := b.(*MapV)
		return ok && x.Obj == y.Obj
	case *ChanV:
		y, ok := b.(*ChanV)
		return ok && x.Obj == y.Obj
	case *StringV:
		y, ok := b.(*StringV)
		return ok && x.Bytes == nil && y.Bytes == nil && x.S == y.S
	case *FuncV:
		y, ok := b.(*FuncV)
		return ok && x.Fn == y.Fn && x.Builtin == y.Builtin && len(x.Bindings) == 0 && len(y.Bindings) == 0
	}
	return false
}

func (ex *Exec) mergeMap(g *Term, x, y *MapData) *MapData {
	n := &MapData{Ent: map[string]MapEntry{}}
	f := ex.ts.Bool(false)
	for _, k := range x.Keys {
		ex_ := x.Ent[k]
		if ey, ok := y.Ent[k]; ok {
			n.Ent[k] = MapEntry{Key: ex_.Key, Present: ex.ts.Ite(g, ex_.Present, ey.Present), Val: ex.mergeVal(g, ex_.Val, ey.Val)}
		} else {
			n.Ent[k] = MapEntry{Key: ex_.Key, Present: ex.ts.Ite(g, ex_.Present, f), Val: ex_.Val}
		}
		n.Keys = append(n.Keys, k)
	}
	for _, k := range y.Keys {
		if _, ok := x.Ent[k]; ok {
			continue
		}
		ey := y.Ent[k]
		n.Ent[k] = MapEntry{Key: ey.Key, Present: ex.ts.Ite(g, f, ey.Present), Val: ey.Val}
		n.Keys = append(n.Keys, k)
	}
	return n
}

// mergeHeaps: result heap "if g then a else b". Shared sub-tries are skipped.
func (ex *Exec) mergeHeaps(g *Term, a, b *Heap) *Heap {
	if a == b || a.root == b.root {
		return a
	}
	var rec func(x, y *hnode, lvl int, base int) *hnode
	rec = func(x, y *hnode, lvl int, base int) *hnode {
		if x == y {
			return x
		}
		var c hnode
		if lvl == 0 {
			for s := 0; s < 32; s++ {
				bit := uint32(1) << uint(s)
				hx := x != nil && x.has&bit != 0
				hy := y != nil && y.has&bit != 0
				switch {
				case hx && hy:
					c.vals[s] = ex.mergeVal(g, x.vals[s], y.vals[s])
					c.has |= bit
				case hx:
					if iv, isG := ex.globalInit[base|s]; isG {
						c.vals[s] = ex.mergeVal(g, x.vals[s], iv)
					} else {
						c.vals[s] = x.vals[s]
					}
					c.has |= bit
				case hy:
					if iv, isG := ex.globalInit[base|s]; isG {
						c.vals[s] = ex.mergeVal(g, iv, y.vals[s])
					} else {
						c.vals[s] = y.vals[s]
					}
					c.has |= bit
				}
			}
			return &c
		}
		for s := 0; s < 32; s++ {
			var kx, ky *hnode
			if x != nil {
				kx = x.kids[s]
			}
			if y != nil {
				ky = y.kids[s]
			}
			if kx == nil && ky == nil {
				continue
			}
			c.kids[s] = rec(kx, ky, lvl-1, base|(s<<(5*uint(lvl))))
		}
		return &c
	}
	return &Heap{root: rec(a.root, b.root, heapLevels-1, 0)}
}

func (ex *Exec) strBytes(s *StringV) []*Term {
	if s.Bytes != nil {
		return s.Bytes
	}
	out := make([]*Term, len(s.S))
	for i := 0; i < len(s.S); i++ {
		out[i] = ex.ts.Int64(int64(s.S[i]))
	}
	return out
}

func (ex *Exec) strLen(s *StringV) int {
	if s.Bytes != nil {
		return len(s.Bytes)
	}
	return len(s.S)
}

// forAlts applies f to each concrete alternative of v and merges the results.
func (ex *Exec) forAlts(v Value, f func(g *Term, v Value) Value) Value {
	c, ok := v.(*ChoiceV)
	if !ok {
		return f(ex.ts.Bool(true), v)
	}
	var res Value
	first := true
	for i := len(c.Alts) - 1; i >= 0; i-- {
		r := f(c.Alts[i].G, c.Alts[i].V)
		if first {
			res = r
			first = false
		} else {
			res = ex.mergeVal(c.Alts[i].G, r, res)
		}
	}
	return res
}

func (ex *Exec) loadSub(st *PState, p *PtrV) Value {
	arr := walk(ex.objValue(st, p.Obj), p.Path).(*ArrayV)
	out := &ArrayV{E: make([]Value, p.Sub.N)}
	for i := range out.E {
		out.E[i] = ex.selectElem(arr.E, ex.ts.Add(p.Sub.Off, ex.ts.Int64(int64(i))))
	}
	return out
}

func (ex *Exec) storeSub(st *PState, p *PtrV, v Value) {
	av, ok := v.(*ArrayV)
	if !ok || len(av.E) != p.Sub.N {
		fail("store of %T through sub-array pointer", v)
	}
	arr := walk(ex.objValue(st, p.Obj), p.Path).(*ArrayV)
	for i := range av.E {
		ep := ex.elemPtr(st, p.Obj, p.Path, ex.ts.Add(p.Sub.Off, ex.ts.Int64(int64(i))), len(arr.E))
		ex.store(st, ep, av.E[i])
	}
}

// storeLimb handles limb-wise initialisation of an abstracted field element from a literal
// (e.g. a constant table entry given by its Montgomery limbs): once all limbs are known the
// element becomes the corresponding constant of the interpretation (a small rational a/b with
// a/b = limbs * R^-1 mod q, or an opaque named atom when there is no small reconstruction).
func (ex *Exec) storeLimb(st *PState, q *PtrV, v Value) {
	vt, ok := v.(*Term)
	if ok && !vt.IsConst() && vt.sort == SInt && q.Limb == 1 {
		// a word parked in the first limb of an element (scratch use of the storage, read back through the
		// same limb before the element is used as a number): the element becomes an opaque carrier of it
		d := ex.ts.DeclareUF("rawlimb0", []Sort{SInt}, SInt, nil, nil)
		st.heap.Set(q.Obj, update(ex.objValue(st, q.Obj), q.Path, ex.ts.App(d, vt)))
		return
	}
	if !ok || !vt.IsConst() || vt.sort != SInt {
		fail("limb store of a non-constant into an abstracted element")
	}
	key := fmt.Sprintf("%d%v", q.Obj.ID, q.Path)
	buf := ex.limbBuf[key]
	if buf == nil {
		buf = map[int]*big.Int{}
		ex.limbBuf[key] = buf
	}
	buf[q.Limb-1] = vt.ival
	// element type: walk the object's type along the path
	t := q.Obj.Type
	for _, i := range q.Path {
		switch u := t.Underlying().(type) {
		case *types.Struct:
			t = u.Field(i).Type()
		case *types.Array:
			t = u.Elem()
		case *types.Slice:
			t = u.Elem()
		default:
			fail("limb store: cannot type path")
		}
	}
	arr, ok := t.Underlying().(*types.Array)
	if !ok {
		fail("limb store into non-array element type %s", t)
	}
	n := int(arr.Len())
	allZero := true
	for i := 0; i < n; i++ {
		if b, has := buf[i]; has && b.Sign() != 0 {
			allZero = false
		}
	}
	cur := ex.objValue(st, q.Obj)
	kind := ex.absKind(t)
	if len(buf) < n {
		// partial literal (Go omits trailing zero limbs): value so far
		if !allZero || true {
			val := ex.limbsToAbstract(t, buf, n, kind)
			st.heap.Set(q.Obj, update(cur, q.Path, val))
		}
		return
	}
	val := ex.limbsToAbstract(t, buf, n, kind)
	st.heap.Set(q.Obj, update(cur, q.Path, val))
	delete(ex.limbBuf, key)
}

func (ex *Exec) limbsToAbstract(t types.Type, buf map[int]*big.Int, n int, kind string) *Term {
	ts := ex.ts
	ii, _ := basicIntInfo(t.Underlying().(*types.Array).Elem())
	w := ii.bits
	mont := new(big.Int)
	for i := 0; i < n; i++ {
		if b, has := buf[i]; has {
			mont.Add(mont, new(big.Int).Lsh(b, uint(i)*w))
		}
	}
	if mont.Sign() == 0 {
		if kind == "real" {
			return ts.Real(new(big.Rat))
		}
		return ts.Int64(0)
	}
	q := ex.feltModulus(t)
	R := pow2(uint(n) * w)
	rinv := new(big.Int).ModInverse(R, q)
	v := new(big.Int).Mul(mont, rinv)
	v.Mod(v, q)
	switch kind {
	case "felt":
		return ts.Int(v)
	case "real":
		if a, b, ok := ratReconstruct(v, q); ok {
			return ts.Real(new(big.Rat).SetFrac(a, b))
		}
		ex.note("field constant without small rational form: opaque atom")
		return ts.Var("fconst!"+v.Text(62), SReal, nil, nil)
	}
	fail("limb literal for abstract kind %q", kind)
	return nil
}

// ratReconstruct finds a/b = v (mod q) with |a|, |b| < 2^64 if it exists.
func ratReconstruct(v, q *big.Int) (*big.Int, *big.Int, bool) {
	bound := pow2(64)
	r0, r1 := new(big.Int).Set(q), new(big.Int).Set(v)
	t0, t1 := big.NewInt(0), big.NewInt(1)
	for r1.Sign() != 0 && r1.Cmp(bound) >= 0 {
		qq := new(big.Int).Quo(r0, r1)
		r0, r1 = r1, new(big.Int).Sub(r0, new(big.Int).Mul(qq, r1))
		t0, t1 = t1, new(big.Int).Sub(t0, new(big.Int).Mul(qq, t1))
	}
	if r1.Sign() == 0 || new(big.Int).Abs(t1).Cmp(bound) >= 0 {
		return nil, nil, false
	}
	a, b := new(big.Int).Set(r1), new(big.Int).Set(t1)
	if b.Sign() < 0 {
		a.Neg(a)
		b.Neg(b)
	}
	// prefer the representative of a closest to zero
	return a, b, true
}

// guardLits returns the set of literals (term ids; negative for negated) that the path guard of
// st asserts conjunctively.
func (ex *Exec) guardLits(g *Term) map[int]bool {
	if m, ok := ex.guardLitCache[g.id]; ok {
		return m
	}
	m := map[int]bool{}
	var rec func(t *Term, pos bool, depth int)
	rec = func(t *Term, pos bool, depth int) {
		if depth < 8 {
			if t.op == "not" {
				rec(t.args[0], !pos, depth+1)
				return
			}
			if (t.op == "and" && pos) || (t.op == "or" && !pos) {
				for _, a := range t.args {
					rec(a, pos, depth+1)
				}
				return
			}
		}
		if pos {
			m[t.id] = true
		} else {
			m[-t.id] = true
		}
	}
	rec(g, true, 0)
	if len(ex.guardLitCache) > 4096 {
		ex.guardLitCache = map[int]map[int]bool{}
	}
	ex.guardLitCache[g.id] = m
	return m
}

// underGuard selects the alternative of a merged scalar that the current path guard fixes
// syntactically (a value merged at a join whose condition the path has since decided).
func (ex *Exec) underGuard(st *PState, v Value) Value {
	t, ok := v.(*Term)
	if !ok || t.op != "ite" || st.g == nil || st.g.IsConst() || ex.cfg.Opts["underguard"] == "" {
		return v
	}
	lits := ex.guardLits(st.g)
	var eval func(c *Term, depth int) int
	eval = func(c *Term, depth int) int {
		if c.IsConst() {
			if c == ex.ts.Bool(true) {
				return 1
			}
			return -1
		}
		if lits[c.id] {
			return 1
		}
		if lits[-c.id] {
			return -1
		}
		if depth > 3 {
			return 0
		}
		switch c.op {
		case "not":
			return -eval(c.args[0], depth+1)
		case "and":
			all := true
			for _, a := range c.args {
				switch eval(a, depth+1) {
				case -1:
					return -1
				case 0:
					all = false
				}
			}
			if all {
				return 1
			}
		case "or":
			none := true
			for _, a := range c.args {
				switch eval(a, depth+1) {
				case 1:
					return 1
				case 0:
					none = false
				}
			}
			if none {
				return -1
			}
		}
		return 0
	}
	for d := 0; d < 4 && t.op == "ite"; d++ {
		r := eval(t.args[0], 0)
		if r > 0 {
			t = t.args[1]
		} else if r < 0 {
			t = t.args[2]
		} else if sr := ex.guardDecidesConstAlt(st, t); sr > 0 {
			t = t.args[1]
		} else if sr < 0 {
			t = t.args[2]
		} else {
			if os.Getenv("VERIF_DEBUG_UG") != "" {
				fmt.Fprintf(os.Stderr, "underGuard: undecided cond %s under guard %s\n", t.args[0].str(3), st.g.str(4))
			}
			break
		}
	}
	return t
}

// guardDecides asks the solver whether the path guard fixes the value of c (cached; bounded number
// of distinct questions per run).
// guardDecidesConstAlt restricts the solver question to merged values with a constant alternative
// (a default left behind by an abandoned path), the case that matters for re-reading decoded data.
func (ex *Exec) guardDecidesConstAlt(st *PState, t *Term) int {
	if !t.args[1].IsConst() && !t.args[2].IsConst() {
		return 0
	}
	return ex.guardDecides(st, t.args[0])
}

func (ex *Exec) guardDecides(st *PState, c *Term) int {
	if ex.solver == nil || ex.initRunningAny() {
		return 0
	}
	if ex.guardDecideSecs > 20 {
		return 0
	}
	t0 := time.Now()
	defer func() { ex.guardDecideSecs += time.Since(t0).Seconds() }()
	key := [2]int{st.g.id, c.id}
	if r, ok := ex.guardDecideCache[key]; ok {
		return r
	}
	if len(ex.guardDecideCache) >= 64 {
		return 0
	}
	r := 0
	if ex.checkQuick([]*Term{st.g, c}) == "unsat" {
		r = -1
	} else if ex.checkQuick([]*Term{st.g, ex.ts.Not(c)}) == "unsat" {
		r = 1
	}
	ex.guardDecideCache[key] = r
	return r
}

// rawLimb0 recovers the word parked in the first limb of an element by storeLimb (through merges;
// an alternative that is not such a carrier must be excluded by the path guard).
func (ex *Exec) rawLimb0(st *PState, t *Term) (*Term, bool) {
	if t.op == "uf:rawlimb0" {
		return t.args[0], true
	}
	if t.isZero() {
		return ex.ts.Int64(0), true
	}
	if t.op == "ite" {
		a, ok1 := ex.rawLimb0(st, t.args[1])
		b, ok2 := ex.rawLimb0(st, t.args[2])
		if ok1 && ok2 {
			return ex.ts.Ite(t.args[0], a, b), true
		}
		if ok1 || ok2 {
			switch r := ex.guardDecides(st, t.args[0]); {
			case r > 0 && ok1:
				return a, true
			case r < 0 && ok2:
				return b, true
			}
		}
	}
	return nil, false
}
