package main

// gosmt: symbolic execution of Go (go/ssa) harnesses into SMT-LIB2 and discharge by z3/cvc5.
//
//   gosmt -dir /repo -pkg <import path> -overlay virt=real[,virt=real] [-tags purego] [-only re] [-solver z3new]
//         [-j N] -out result.json [-smtdir dir]

import (
	"encoding/json"
	"flag"
	"fmt"
	"go/ast"
	"math/big"
	"os"
	"regexp"
	"runtime/debug"
	"sort"
	"strconv"
	"strings"
	"sync"
	"time"

	"golang.org/x/tools/go/packages"
	"golang.org/x/tools/go/ssa"
	"golang.org/x/tools/go/ssa/ssautil"
)

type OblResult struct {
	Kind   string  `json:"kind"`
	ID     string  `json:"id"`
	Pos    string  `json:"pos"`
	Status string  `json:"status"` // unsat | sat | unknown | error
	Secs   float64 `json:"secs"`
	Sample string  `json:"sample,omitempty"`
}

type HarnessResult struct {
	Name        string            `json:"name"`
	Pkg         string            `json:"pkg"`
	Status      string            `json:"status"` // proved | violated | inconclusive | error
	Message     string            `json:"message,omitempty"`
	Obligations []OblResult       `json:"obligations"`
	NumObl      int               `json:"num_obligations"`
	Discharged  int               `json:"discharged"`
	Vacuity     string            `json:"vacuity"` // sat expected
	Model       map[string]string `json:"model,omitempty"`
	Violated    *OblResult        `json:"violated,omitempty"`
	Funcs       []string          `json:"funcs"`
	Notes       map[string]int    `json:"notes,omitempty"`
	Nondets     int               `json:"nondets"`
	Terms       int               `json:"terms"`
	Steps       int               `json:"steps"`
	Queries     int               `json:"queries"`
	SolverSecs  float64           `json:"solver_secs"`
	WallSecs    float64           `json:"wall_secs"`
	Solver      string            `json:"solver"`
	Cfg         map[string]string `json:"cfg"`
	Assumptions int               `json:"assumptions"`
	CrossCheck  string            `json:"cross_check,omitempty"`
}

func parseCfg(lines []string, def HarnessCfg) HarnessCfg {
	cfg := def
	cfg.Abstract = map[string]string{}
	for k, v := range def.Abstract {
		cfg.Abstract[k] = v
	}
	cfg.Stubs = map[string]string{}
	for k, v := range def.Stubs {
		cfg.Stubs[k] = v
	}
	cfg.Opts = map[string]string{}
	for k, v := range def.Opts {
		cfg.Opts[k] = v
	}
	for _, l := range lines {
		for _, f := range strings.Fields(l) {
			kv := strings.SplitN(f, "=", 2)
			k := kv[0]
			v := ""
			if len(kv) == 2 {
				v = kv[1]
			}
			switch k {
			case "unroll":
				cfg.Unroll, _ = strconv.Atoi(v)
			case "abstract":
				for _, p := range strings.Split(v, ",") {
					tk := strings.SplitN(p, ":", 2)
					if len(tk) == 2 {
						cfg.Abstract[tk[0]] = tk[1]
					}
				}
			case "mulmode":
				cfg.MulMode = v
			case "allowpanic":
				cfg.AllowPanic = true
			case "timeout":
				cfg.TimeoutMs, _ = strconv.Atoi(v)
			case "feasible", "prune":
				cfg.Feasible = true
			case "capture":
				// capture=Func:v1+v2+...  trigger=v  cut=v1+v2
				i := strings.Index(v, ":")
				if i > 0 {
					cfg.CapFunc = v[:i]
					cfg.CapVars = map[string]bool{}
					for _, n := range strings.Split(v[i+1:], "+") {
						cfg.CapVars[n] = true
					}
				}
			case "cutloop":
				cfg.CutLoopFn = v
			case "trigger":
				cfg.CapTrigger = v
			case "cut":
				cfg.CapCut = map[string]bool{}
				for _, n := range strings.Split(v, "+") {
					cfg.CapCut[n] = true
				}
			case "stub":
				// stub=full.Name:harnessFunc
				for _, one := range strings.Split(v, ",") {
					i := strings.LastIndex(one, ":")
					if i > 0 {
						cfg.Stubs[one[:i]] = one[i+1:]
					}
				}
			default:
				cfg.Opts[k] = v
			}
		}
	}
	return cfg
}

type harnessDecl struct {
	name string
	cfg  HarnessCfg
}

func main() {
	dir := flag.String("dir", "/repo", "module directory")
	pkgPath := flag.String("pkg", "", "import path of package under test")
	overlay := flag.String("overlay", "", "virt=real,... overlay files")
	tags := flag.String("tags", "purego", "build tags")
	only := flag.String("only", "", "regexp of harness names")
	solverKind := flag.String("solver", "z3a2:10000,cvc5:20000,z3new", "solver chain kind[:timeoutms],... kinds: z3new z3a2 z3old cvc5")
	cross := flag.String("cross", "", "second solver to re-discharge every obligation")
	jobs := flag.Int("j", 4, "parallel harnesses")
	out := flag.String("out", "", "result json")
	smtdir := flag.String("smtdir", "", "directory for SMT-LIB logs")
	defTimeout := flag.Int("timeout", 60000, "per query timeout ms")
	goarch := flag.String("goarch", "", "GOARCH used to load the packages (selects the generic code paths of packages whose assembly is keyed on the architecture)")
	pinFile := flag.String("pin", "", "model json (name -> value) used to pin inputs named by the harness option pin=<regexp>")
	flag.Parse()
	debug.SetGCPercent(400)

	ov := map[string][]byte{}
	var ovFiles []string
	for _, p := range strings.Split(*overlay, ",") {
		if p == "" {
			continue
		}
		kv := strings.SplitN(p, "=", 2)
		data, err := os.ReadFile(kv[1])
		if err != nil {
			fatal("overlay: %v", err)
		}
		ov[kv[0]] = data
		ovFiles = append(ovFiles, kv[0])
	}
	cfg := &packages.Config{Mode: packages.LoadAllSyntax, Dir: *dir, BuildFlags: []string{"-tags=" + *tags}, Overlay: ov,
		Env: append(os.Environ(), "GOFLAGS=-mod=mod", "GOPROXY=off", "GOSUMDB=off", "GOTOOLCHAIN=local")}
	if *goarch != "" {
		cfg.Env = append(cfg.Env, "GOARCH="+*goarch)
	}
	t0 := time.Now()
	pkgs, err := packages.Load(cfg, *pkgPath)
	if err != nil {
		fatal("load: %v", err)
	}
	nerr := 0
	packages.Visit(pkgs, nil, func(p *packages.Package) {
		for _, e := range p.Errors {
			// bodyless verif* declarations are fine for go/types; report the rest
			fmt.Fprintln(os.Stderr, "load error:", e)
			nerr++
		}
	})
	if nerr > 0 {
		fatal("package load errors")
	}
	prog, spkgs := ssautil.AllPackages(pkgs, ssa.InstantiateGenerics|ssa.GlobalDebug)
	prog.Build()
	loadSecs := time.Since(t0).Seconds()
	if len(spkgs) == 0 || spkgs[0] == nil {
		fatal("no ssa package")
	}
	spkg := spkgs[0]

	// discover harnesses in overlay files
	var decls []harnessDecl
	def := HarnessCfg{TimeoutMs: *defTimeout, Unroll: 0}
	var onlyRe *regexp.Regexp
	if *only != "" {
		onlyRe = regexp.MustCompile(*only)
	}
	for _, f := range pkgs[0].Syntax {
		fname := pkgs[0].Fset.Position(f.Pos()).Filename
		isOv := false
		for _, o := range ovFiles {
			if o == fname {
				isOv = true
			}
		}
		if !isOv {
			continue
		}
		fileDef := def
		for _, cg := range f.Comments {
			for _, c := range cg.List {
				if strings.HasPrefix(c.Text, "//verif:default ") {
					fileDef = parseCfg([]string{strings.TrimPrefix(c.Text, "//verif:default ")}, fileDef)
				}
			}
		}
		for _, d := range f.Decls {
			fd, ok := d.(*ast.FuncDecl)
			if !ok || fd.Recv != nil || !strings.HasPrefix(fd.Name.Name, "H_") {
				continue
			}
			if onlyRe != nil && !onlyRe.MatchString(fd.Name.Name) {
				continue
			}
			var lines []string
			if fd.Doc != nil {
				for _, c := range fd.Doc.List {
					if strings.HasPrefix(c.Text, "//verif:harness") {
						lines = append(lines, strings.TrimPrefix(c.Text, "//verif:harness"))
					}
				}
			}
			hc := parseCfg(lines, fileDef)
			hc.Name = fd.Name.Name
			decls = append(decls, harnessDecl{fd.Name.Name, hc})
		}
	}
	sort.Slice(decls, func(i, j int) bool { return decls[i].name < decls[j].name })

	results := make([]*HarnessResult, len(decls))
	var wg sync.WaitGroup
	sem := make(chan struct{}, *jobs)
	for i := range decls {
		wg.Add(1)
		go func(i int) {
			defer wg.Done()
			sem <- struct{}{}
			defer func() { <-sem }()
			d := decls[i]
			fn := spkg.Func(d.name)
			if fn == nil {
				results[i] = &HarnessResult{Name: d.name, Status: "error", Message: "harness function not found"}
				return
			}
			logp := ""
			if *smtdir != "" {
				logp = fmt.Sprintf("%s/%s.smt2", *smtdir, d.name)
			}
			if *pinFile != "" {
				d.cfg.Opts["pinfile"] = *pinFile
			}
			results[i] = runHarness(prog, fn, d.cfg, *solverKind, *cross, logp)
			results[i].Pkg = *pkgPath
		}(i)
	}
	wg.Wait()
	outv := map[string]interface{}{"pkg": *pkgPath, "load_secs": loadSecs, "harnesses": results}
	data, _ := json.MarshalIndent(outv, "", " ")
	if *out != "" {
		os.WriteFile(*out, data, 0644)
	} else {
		os.Stdout.Write(data)
	}
	for _, r := range results {
		fmt.Fprintf(os.Stderr, "%-40s %-12s obl=%d/%d q=%d solver=%.2fs wall=%.2fs %s\n", r.Name, r.Status, r.Discharged, r.NumObl, r.Queries, r.SolverSecs, r.WallSecs, r.Message)
	}
}

func fatal(f string, a ...interface{}) {
	fmt.Fprintf(os.Stderr, "gosmt: "+f+"\n", a...)
	os.Exit(3)
}

func runHarness(prog *ssa.Program, fn *ssa.Function, cfg HarnessCfg, solverKind, cross, logp string) (res *HarnessResult) {
	t0 := time.Now()
	res = &HarnessResult{Name: cfg.Name, Solver: solverKind, Cfg: map[string]string{}}
	res.Cfg["unroll"] = strconv.Itoa(cfg.Unroll)
	res.Cfg["timeout_ms"] = strconv.Itoa(cfg.TimeoutMs)
	for k, v := range cfg.Abstract {
		res.Cfg["abstract:"+k] = v
	}
	for k, v := range cfg.Opts {
		res.Cfg[k] = v
	}
	if cfg.MulMode != "" {
		res.Cfg["mulmode"] = cfg.MulMode
	}
	c := cfg
	ex := NewExec(prog, &c)
	ex.harnessPkg = fn.Pkg
	if pf := cfg.Opts["pinfile"]; pf != "" && cfg.Opts["pin"] != "" {
		if data, err := os.ReadFile(pf); err == nil {
			var mj struct {
				Model map[string]string `json:"model"`
			}
			if json.Unmarshal(data, &mj) == nil {
				ex.pinRe = regexp.MustCompile(cfg.Opts["pin"])
				ex.pinVals = map[string]*big.Int{}
				for k, v := range mj.Model {
					if b, ok := new(big.Int).SetString(v, 10); ok {
						ex.pinVals[k] = b
					}
				}
			}
		}
	}
	ex.ts.BvUF = cfg.Opts["bitops"] != "bv"
	chain := solverKind
	if c, ok := cfg.Opts["solvers"]; ok {
		chain = c
	}
	solver := NewPortfolio(ex.ts, chain, cfg.TimeoutMs, strings.TrimSuffix(logp, ".smt2"))
	ex.solver = solver
	defer solver.Close()
	defer func() {
		res.WallSecs = time.Since(t0).Seconds()
		res.Queries = solver.Queries
		res.SolverSecs = solver.Seconds
		res.Solver = fmt.Sprintf("%s used=%v", chain, solver.Used)
		res.Terms = ex.ts.next
		res.Steps = ex.steps
		res.Nondets = len(ex.nondets)
		res.Notes = ex.notes
		res.Assumptions = len(ex.assumptions)
		for f := range ex.funcsSeen {
			res.Funcs = append(res.Funcs, f)
		}
		sort.Strings(res.Funcs)
		if r := recover(); r != nil {
			if ee, ok := r.(execError); ok {
				res.Status = "error"
				res.Message = ee.msg + " @ " + ex.pos()
				return
			}
			res.Status = "error"
			res.Message = fmt.Sprintf("internal panic: %v @ %s\n%s", r, ex.pos(), debug.Stack())
		}
	}()
	st := &PState{g: ex.ts.Bool(true), heap: NewHeap()}
	ex.callFunction(st, fn, nil, nil)
	ex.curInstr = nil

	// vacuity: end of harness reachable under the assumptions
	vr := ex.check([]*Term{st.g}, nil)
	if vr.Status == "unknown" {
		// the witness query can be harder than the obligations themselves (it needs a model of the whole
		// path condition): one more attempt through the portfolio
		vr = ex.check([]*Term{st.g}, nil)
	}
	res.Vacuity = vr.Status
	if vr.Status == "unknown" {
		ex.note("reachability witness of the harness undecided by the solvers (timeout): obligations discharged, non-vacuity not confirmed on this run")
	}
	res.NumObl = len(ex.obligations) + ex.folded + ex.eagerPanics
	res.Discharged = ex.folded + ex.eagerPanics
	if ex.eagerPanics > 0 {
		res.Obligations = append(res.Obligations, OblResult{Kind: "panic", ID: fmt.Sprintf("%d run-time panic conditions", ex.eagerPanics), Status: "unsat", Sample: "discharged eagerly during symbolic execution (one query each)"})
	}
	for _, f := range ex.foldedIDs {
		res.Obligations = append(res.Obligations, OblResult{Kind: "assert", ID: f, Status: "unsat", Sample: "decided by constant folding during symbolic execution"})
	}

	budget := time.Duration(600) * time.Second
	if b, ok := cfg.Opts["budget"]; ok {
		if n, err := strconv.Atoi(b); err == nil {
			budget = time.Duration(n) * time.Second
		}
	}
	check := func(o *Obligation, want bool) OblResult {
		if time.Since(t0) > budget {
			return OblResult{Kind: o.Kind, ID: o.ID, Pos: o.Pos, Status: "unknown", Sample: "harness time budget exhausted"}
		}
		var w []*Term
		if want {
			w = ex.nondets
		}
		r := ex.check([]*Term{o.Cond}, w)
		or := OblResult{Kind: o.Kind, ID: o.ID, Pos: o.Pos, Status: r.Status, Secs: r.Secs}
		if r.Status == "sat" && want {
			res.Model = r.Model
		}
		return or
	}
	inconclusive := ""
	violated := false
	// batch the panic obligations
	var panics []*Obligation
	var others []*Obligation
	for _, o := range ex.obligations {
		if o.Kind == "panic" || o.Kind == "frame" {
			panics = append(panics, o)
		} else {
			others = append(others, o)
		}
	}
	if len(panics) > 0 {
		var cs []*Term
		for _, o := range panics {
			cs = append(cs, o.Cond)
		}
		r := ex.check([]*Term{ex.ts.Or(cs...)}, nil)
		if r.Status == "unsat" {
			for _, o := range panics {
				res.Obligations = append(res.Obligations, OblResult{Kind: o.Kind, ID: o.ID, Pos: o.Pos, Status: "unsat", Secs: r.Secs / float64(len(panics)), Sample: "batched"})
				res.Discharged++
			}
		} else {
			others = append(panics, others...)
		}
	}
	for _, o := range others {
		if o.Kind == "cover" {
			r := check(o, false)
			if r.Status == "sat" {
				r.Status = "unsat" // reported uniformly: obligation met
				r.Sample = "reachability witness is satisfiable"
				res.Discharged++
			} else if r.Status == "unsat" {
				r.Status = "sat"
				inconclusive = "cover point unreachable: " + o.ID
			} else {
				inconclusive = "cover point undecided: " + o.ID
			}
			res.Obligations = append(res.Obligations, r)
			continue
		}
		r := check(o, !violated)
		if len(res.Obligations) < 3 || r.Status != "unsat" {
			r.Sample = o.Cond.str(4)
		}
		switch r.Status {
		case "unsat":
			res.Discharged++
		case "sat":
			if !violated {
				violated = true
				rr := r
				res.Violated = &rr
			}
		default:
			if o.Kind == "unwind" {
				inconclusive = "unwinding assertion undecided: " + o.ID
			} else {
				inconclusive = fmt.Sprintf("%s (%s %s at %s) %s", r.Status, o.Kind, o.ID, o.Pos, solver.ErrLine)
			}
		}
		res.Obligations = append(res.Obligations, r)
	}
	switch {
	case violated && res.Violated.Kind == "unwind":
		res.Status = "inconclusive"
		res.Message = "unwinding bound reached: " + res.Violated.ID
	case violated:
		res.Status = "violated"
		res.Message = fmt.Sprintf("%s %q at %s", res.Violated.Kind, res.Violated.ID, res.Violated.Pos)
	case inconclusive != "":
		res.Status = "inconclusive"
		res.Message = inconclusive
	case res.Vacuity == "unsat":
		// the assumptions of the harness are contradictory or its end is unreachable: nothing was shown
		res.Status = "inconclusive"
		res.Message = "vacuity check: end of harness is " + res.Vacuity
	case solver.ErrLine != "":
		res.Status = "inconclusive"
		res.Message = "solver error: " + solver.ErrLine
	default:
		res.Status = "proved"
	}
	if res.NumObl == 0 && res.Status == "proved" {
		res.Status = "inconclusive"
		res.Message = "harness produced no obligations"
	}
	// optional second solver
	if cross != "" && res.Status == "proved" {
		s2, err := NewSolver(ex.ts, cross, cfg.TimeoutMs, "")
		if err == nil {
			for _, a := range ex.assumptions {
				s2.Assert(a)
			}
			for _, d := range ex.defOf {
				s2.Assert(d)
			}
			agree := 0
			for _, o := range ex.obligations {
				if o.Kind == "cover" {
					continue
				}
				r := s2.Check([]*Term{o.Cond}, nil)
				if r.Status == "unsat" {
					agree++
				} else if r.Status == "sat" {
					res.Status = "inconclusive"
					res.Message = "solvers disagree on " + o.ID
				}
			}
			res.CrossCheck = fmt.Sprintf("%s: %d/%d unsat", cross, agree, len(ex.obligations))
			s2.Close()
		}
	}
	return
}
