package main

// "felt" interpretation: a prime-field Element is its canonical integer value v, 0 <= v < q.
// Linear operations are exact (mod q via case split), multiplication/inversion/sqrt are
// uninterpreted functions over canonical values, byte/limb/big.Int conversions are exact.
// These summaries are the contracts established for the real limb code by the C01/C08 checks.

import (
	"fmt"
	"go/constant"
	"go/types"
	"math/big"
	"sort"
	"strings"

	"golang.org/x/tools/go/ssa"
)

// modulusOfPkg reads q from the field package's constants (q0..qN 64-bit words, or q for one-word fields).
func modulusOfPkg(pkg *types.Package) *big.Int {
	sc := pkg.Scope()
	get := func(name string) (*big.Int, bool) {
		o := sc.Lookup(name)
		c, ok := o.(*types.Const)
		if !ok {
			return nil, false
		}
		v := constant.ToInt(c.Val())
		b, ok := new(big.Int).SetString(v.ExactString(), 10)
		return b, ok
	}
	if _, ok := get("q0"); ok {
		q := new(big.Int)
		for i := 0; ; i++ {
			w, ok := get(fmt.Sprintf("q%d", i))
			if !ok {
				break
			}
			q.Add(q, new(big.Int).Lsh(w, uint(64*i)))
		}
		return q
	}
	if q, ok := get("q"); ok {
		return q
	}
	return nil
}

func (ex *Exec) feltModulus(t types.Type) *big.Int {
	if p, ok := t.(*types.Pointer); ok {
		t = p.Elem()
	}
	n, ok := types.Unalias(t).(*types.Named)
	if !ok || n.Obj().Pkg() == nil {
		fail("felt type %s has no package", t)
	}
	key := n.Obj().Pkg().Path()
	if q, ok := ex.feltQ[key]; ok {
		return q
	}
	q := modulusOfPkg(n.Obj().Pkg())
	if q == nil {
		fail("cannot determine modulus of %s", key)
	}
	ex.feltQ[key] = q
	return q
}

func (ex *Exec) isFelt(t types.Type) bool {
	if p, ok := t.(*types.Pointer); ok {
		t = p.Elem()
	}
	return ex.absKind(t) == "felt"
}

func (ex *Exec) absKind(t types.Type) string {
	n, ok := types.Unalias(t).(*types.Named)
	if !ok {
		return ""
	}
	key := typeKey(n)
	for pat, kind := range ex.cfg.Abstract {
		if key == pat || strings.HasSuffix(key, "/"+pat) {
			return kind
		}
	}
	return ""
}

// modQ reduces an integer term known to lie in [lo*q, hi*q) by case split when the range is small.
func (ex *Exec) modQ(t *Term, q *big.Int) *Term {
	ts := ex.ts
	if t.IsConst() {
		return ts.Int(new(big.Int).Mod(t.ival, q))
	}
	if t.lo != nil && t.hi != nil {
		klo := floorDiv(t.lo, q)
		khi := floorDiv(t.hi, q)
		if new(big.Int).Sub(khi, klo).Cmp(bi(4)) <= 0 {
			// t - k*q for the unique k with 0 <= t-kq < q
			res := ts.Sub(t, ts.Mul(ts.Int(khi), ts.Int(q)))
			for k := new(big.Int).Sub(khi, bigOne); k.Cmp(klo) >= 0; k = new(big.Int).Sub(k, bigOne) {
				bound := ts.Int(new(big.Int).Mul(new(big.Int).Add(k, bigOne), q)) // t < (k+1) q
				res = ts.Ite(ts.Lt(t, bound), ts.Sub(t, ts.Mul(ts.Int(k), ts.Int(q))), res)
			}
			r := res
			// record the tight interval
			if r.op == "ite" {
				r2 := *r
				_ = r2
			}
			return ex.withRange(res, bigZero, new(big.Int).Sub(q, bigOne))
		}
	}
	_, r := ex.divmod(t, q)
	return r
}

// withRange returns a term equal to t whose interval is narrowed to [lo,hi] (known invariant).
func (ex *Exec) withRange(t *Term, lo, hi *big.Int) *Term {
	if t.IsConst() || t.op == "var" {
		return t
	}
	if t.lo != nil && t.hi != nil && t.lo.Cmp(lo) >= 0 && t.hi.Cmp(hi) <= 0 {
		return t
	}
	// intervals are attributes of the interned node; narrowing is sound because the invariant holds
	if t.lo == nil || t.lo.Cmp(lo) < 0 {
		t.lo = lo
	}
	if t.hi == nil || t.hi.Cmp(hi) > 0 {
		t.hi = hi
	}
	return t
}

func (ex *Exec) feltUF(name string, q *big.Int, args ...*Term) *Term {
	ts := ex.ts
	sorts := make([]Sort, len(args))
	for i := range sorts {
		sorts[i] = SInt
	}
	d := ts.DeclareUF(fmt.Sprintf("%s!%s", name, q.Text(62)[:6]), sorts, SInt, bigZero, new(big.Int).Sub(q, bigOne))
	return ts.App(d, args...)
}

func (ex *Exec) feltMul(a, b *Term, q *big.Int) *Term {
	ts := ex.ts
	if a.IsConst() && b.IsConst() {
		return ts.Int(new(big.Int).Mod(new(big.Int).Mul(a.ival, b.ival), q))
	}
	if a.isZero() || b.isZero() {
		return ts.Int64(0)
	}
	if a.isOne() {
		return b
	}
	if b.isOne() {
		return a
	}
	// small constant factors stay linear
	if a.IsConst() && a.ival.Cmp(bi(64)) <= 0 {
		return ex.modQ(ts.Mul(a, b), q)
	}
	if b.IsConst() && b.ival.Cmp(bi(64)) <= 0 {
		return ex.modQ(ts.Mul(a, b), q)
	}
	// signs and zero alternatives are pulled out of products: every factor is written as
	// [nz] * (-1)^[s] * base, where merged values ite(c, -y, y), ite(c, 0, y) contribute conditions;
	// the product of the bases is negated when an odd number of sign conditions hold and is zero
	// unless all factors are non-zero alternatives.
	var fac []*Term
	var signs, nzs []*Term
	tt, ff := ts.Bool(true), ts.Bool(false)
	var sdec func(x *Term, depth int) (*Term, *Term, *Term)
	sdec = func(x *Term, depth int) (*Term, *Term, *Term) {
		if x.isZero() {
			return nil, ff, ff
		}
		if y, ok := ex.feltNegOf[x.id]; ok {
			b, c, z := sdec(y, depth)
			return b, ts.Not(c), z
		}
		if x.op == "ite" && depth < 6 {
			b1, c1, z1 := sdec(x.args[1], depth+1)
			b2, c2, z2 := sdec(x.args[2], depth+1)
			switch {
			case b1 == nil && b2 == nil:
				return nil, ff, ff
			case b1 == nil:
				return b2, c2, ts.And(ts.Not(x.args[0]), z2)
			case b2 == nil:
				return b1, c1, ts.And(x.args[0], z1)
			case b1 == b2:
				return b1, ts.Ite(x.args[0], c1, c2), ts.Ite(x.args[0], z1, z2)
			}
		}
		return x, ff, tt
	}
	zeroProduct := false
	split := func(x *Term) {
		b, c, z := sdec(x, 0)
		if b == nil {
			zeroProduct = true
			return
		}
		if c != ff {
			signs = append(signs, c)
		}
		if z != tt {
			nzs = append(nzs, z)
		}
		// associative-commutative normal form: a product is the sorted multiset of its atomic factors
		if strings.HasPrefix(b.op, "uf:fprod") {
			fac = append(fac, b.args...)
		} else {
			fac = append(fac, b)
		}
	}
	split(a)
	split(b)
	if zeroProduct {
		return ts.Int64(0)
	}
	if len(signs) > 0 || len(nzs) > 0 {
		neg := ff
		for _, c := range signs {
			neg = ts.Or(ts.And(neg, ts.Not(c)), ts.And(ts.Not(neg), c))
		}
		base := fac[0]
		for _, f := range fac[1:] {
			base = ex.feltMul(base, f, q)
		}
		res := base
		if neg != ff {
			res = ts.Ite(neg, ex.feltNeg(base, q), base)
		}
		if len(nzs) > 0 {
			res = ts.Ite(ts.And(nzs...), res, ts.Int64(0))
		}
		return res
	}
	sort.Slice(fac, func(i, j int) bool { return fac[i].id < fac[j].id })
	res := ex.feltUF(fmt.Sprintf("fprod%d", len(fac)), q, fac...)
	if len(fac) == 2 && fac[0] == fac[1] && !ex.feltSquareSeen[res.id] {
		// remember squares (used by the Sqrt contract)
		ex.feltSquareSeen[res.id] = true
		sq := feltSquare{sq: res, y: fac[0], q: q}
		ex.feltSquares = append(ex.feltSquares, sq)
		qt := ex.ts.Int(q)
		z0 := ex.ts.Int64(0)
		for _, s := range ex.feltSqrts {
			if s.q.Cmp(q) != 0 {
				continue
			}
			same := ex.ts.Eq(res, s.x)
			ex.assume(ex.ts.Implies(same, ex.ts.And(s.isSq, ex.ts.Or(ex.ts.Eq(s.r, sq.y), ex.ts.Eq(ex.ts.Add(s.r, sq.y), qt), ex.ts.And(ex.ts.Eq(s.r, z0), ex.ts.Eq(sq.y, z0))))))
		}
	}
	return res
}

// feltNeg is the field negation; the result remembers its operand so that products can pull the
// sign out.
func (ex *Exec) feltNeg(a *Term, q *big.Int) *Term {
	if y, ok := ex.feltNegOf[a.id]; ok {
		return y
	}
	r := ex.modQ(ex.ts.Neg(a), q)
	if !r.IsConst() && !a.IsConst() {
		if _, dup := ex.feltNegOf[r.id]; !dup {
			ex.feltNegOf[r.id] = a
		}
	}
	return r
}

func (ex *Exec) feltInv(a *Term, q *big.Int) *Term {
	ts := ex.ts
	if a.IsConst() {
		if a.ival.Sign() == 0 {
			return a
		}
		return ts.Int(new(big.Int).ModInverse(a.ival, q))
	}
	// inversion distributes over alternatives with a constant branch
	if a.op == "ite" && (a.args[1].IsConst() || a.args[2].IsConst()) {
		return ts.Ite(a.args[0], ex.feltInv(a.args[1], q), ex.feltInv(a.args[2], q))
	}
	return ts.Ite(ts.Eq(a, ts.Int64(0)), ts.Int64(0), ex.feltUF("finv", q, a))
}

// feltBytesBE writes the big-endian n-byte representation of v.
func (ex *Exec) feltByte(v *Term, n, i int) *Term {
	sh := uint(8 * (n - 1 - i))
	b := ex.modC(ex.divC(v, pow2(sh)), pow2(8))
	if !b.IsConst() {
		ex.byteProv[b.id] = byteProv{src: v, n: n, i: i}
	}
	return b
}

type feltSquare struct {
	sq, y *Term
	q     *big.Int
}
type feltSqrt struct {
	x, r, isSq *Term
	q          *big.Int
}

// byteProv records that a term is byte i of the n-byte big-endian encoding of src (0 <= src < 256^n).
type byteProv struct {
	src  *Term
	n, i int
}

func (ex *Exec) feltByteLen(q *big.Int) int { return (q.BitLen() + 7) / 8 }

func (ex *Exec) feltBytesOf(st *PState, recvT types.Type) int {
	// Bytes constant of the package: number of bytes of an element
	p := recvT
	if pp, ok := p.(*types.Pointer); ok {
		p = pp.Elem()
	}
	n := types.Unalias(p).(*types.Named)
	if c, ok := n.Obj().Pkg().Scope().Lookup("Bytes").(*types.Const); ok {
		v, _ := constant.Int64Val(c.Val())
		return int(v)
	}
	return ex.feltByteLen(ex.feltModulus(recvT))
}

func (ex *Exec) feltLimbInfo(recvT types.Type) (n int, wbits uint) {
	p := recvT
	if pp, ok := p.(*types.Pointer); ok {
		p = pp.Elem()
	}
	arr := types.Unalias(p).(*types.Named).Underlying().(*types.Array)
	ii, _ := basicIntInfo(arr.Elem())
	return int(arr.Len()), ii.bits
}

func (ex *Exec) feltMethod(st *PState, fn *ssa.Function, args []Value) Value {
	ts := ex.ts
	name := fn.Name()
	recvT := fn.Signature.Recv().Type()
	q := ex.feltModulus(recvT)
	qm1 := new(big.Int).Sub(q, bigOne)
	recv := args[0]
	_, ptrRecv := recvT.(*types.Pointer)
	L := func(i int) *Term {
		if i == 0 && !ptrRecv {
			return args[0].(*Term)
		}
		return ex.ldT(st, args[i])
	}
	set := func(v *Term) Value {
		ex.store(st, recv, v)
		return recv
	}
	z0 := ts.Int64(0)
	b01 := func(c *Term) *Term { return ts.Ite(c, ts.Int64(1), z0) }
	nbytes := ex.feltBytesOf(st, recvT)
	switch name {
	case "Set":
		return set(L(1))
	case "SetZero":
		return set(z0)
	case "SetOne":
		return set(ts.Int64(1))
	case "Add":
		return set(ex.modQ(ts.Add(L(1), L(2)), q))
	case "Sub":
		return set(ex.modQ(ts.Sub(L(1), L(2)), q))
	case "Neg":
		return set(ex.feltNeg(L(1), q))
	case "Double":
		return set(ex.modQ(ts.Mul(ts.Int64(2), L(1)), q))
	case "Mul":
		return set(ex.feltMul(L(1), L(2), q))
	case "Square":
		x := L(1)
		return set(ex.feltMul(x, x, q))
	case "Inverse":
		return set(ex.feltInv(L(1), q))
	case "Div":
		return set(ex.feltMul(L(1), ex.feltInv(L(2), q), q))
	case "Halve":
		x := L(0)
		even := ts.Eq(ex.modC(x, bi(2)), z0)
		return set(ts.Ite(even, ex.divC(x, bi(2)), ex.divC(ts.Add(x, ts.Int(q)), bi(2))))
	case "IsZero":
		return ts.Eq(L(0), z0)
	case "IsOne":
		return ts.Eq(L(0), ts.Int64(1))
	case "Equal":
		return ts.Eq(L(0), L(1))
	case "NotEqual":
		// any non-zero word when different; modelled as 0/1
		return b01(ts.Not(ts.Eq(L(0), L(1))))
	case "Cmp":
		a, b := L(0), L(1)
		return ts.Ite(ts.Lt(a, b), ts.Int64(-1), ts.Ite(ts.Eq(a, b), z0, ts.Int64(1)))
	case "LexicographicallyLargest":
		half := new(big.Int).Rsh(qm1, 1)
		return ts.Lt(ts.Int(half), L(0))
	case "SetUint64":
		return set(ex.modQ(args[1].(*Term), q))
	case "SetInt64":
		return set(ex.modQ(args[1].(*Term), q))
	case "Select":
		return set(ts.Ite(ts.Eq(args[1].(*Term), z0), L(2), L(3)))
	case "smallerThanModulus":
		return ts.Bool(true)
	case "IsUint64", "FitsOnOneWord":
		return ts.Lt(L(0), ts.Int(pow2(64)))
	case "Uint64":
		return ex.modC(L(0), pow2(64))
	case "BitLen":
		return ex.bitLenTerm(L(0), "Element.BitLen")
	case "Bytes":
		x := L(0)
		arr := &ArrayV{E: make([]Value, nbytes)}
		for i := range arr.E {
			arr.E[i] = ex.feltByte(x, nbytes, i)
		}
		return arr
	case "Marshal":
		x := L(0)
		arr := &ArrayV{E: make([]Value, nbytes)}
		for i := range arr.E {
			arr.E[i] = ex.feltByte(x, nbytes, i)
		}
		o := ex.alloc(st, "Marshal", types.NewArray(types.Typ[types.Uint8], int64(nbytes)), arr)
		n := ts.Int64(int64(nbytes))
		return &SliceV{Obj: o, Off: z0, Len: n, Cap: n}
	case "SetBytes", "Unmarshal":
		buf := args[1].(*SliceV)
		v := ex.bytesToInt(st, buf)
		r := set(ex.modQ(v, q))
		if name == "Unmarshal" {
			return nil
		}
		return r
	case "SetBytesCanonical":
		buf := args[1].(*SliceV)
		okLen := ts.Eq(buf.Len, ts.Int64(int64(nbytes)))
		if okLen.IsFalse() {
			return ex.errorValue(st, "felt: invalid encoding length")
		}
		// value only meaningful when the length matches
		var v *Term
		if c, ok := buf.Len.constInt(); ok && c.Int64() == int64(nbytes) {
			v = ex.bytesToInt(st, buf)
		} else {
			fixed := &SliceV{Obj: buf.Obj, Path: buf.Path, Off: buf.Off, Len: ts.Int64(int64(nbytes)), Cap: ts.Int64(int64(nbytes))}
			var parts []*Term
			for i := 0; i < nbytes; i++ {
				parts = append(parts, ts.Mul(ts.Int(pow2(uint(8*(nbytes-1-i)))), ex.sliceElemGuarded(st, fixed, ts.Int64(int64(i))).(*Term)))
			}
			v = ts.Add(parts...)
		}
		okVal := ts.Lt(v, ts.Int(q))
		good := ts.And(okLen, okVal)
		old := L(0)
		ex.store(st, recv, ts.Ite(good, ex.withRange(ts.Ite(good, v, z0), bigZero, qm1), old))
		e1 := ex.errorValue(st, "felt: invalid encoding length")
		e2 := ex.errorValue(st, "felt: invalid fr.Element encoding")
		return ex.mergeVal(good, &IfaceV{}, ex.mergeVal(okLen, e2, e1))
	case "SetBigInt", "setBigInt":
		return set(ex.modQ(ex.ldT(st, args[1]), q))
	case "BigInt", "ToBigIntRegular", "toBigInt":
		ex.store(st, args[1], L(0))
		return args[1]
	case "Bits":
		x := L(0)
		n, w := ex.feltLimbInfo(recvT)
		arr := &ArrayV{E: make([]Value, n)}
		for i := range arr.E {
			arr.E[i] = ex.modC(ex.divC(x, pow2(uint(i)*w)), pow2(w))
		}
		return arr
	case "SetString":
		s := constString(args[1])
		v, ok := new(big.Int).SetString(s, 0)
		if !ok {
			return &TupleV{V: []Value{&PtrV{}, ex.errorValue(st, "Element.SetString failed")}}
		}
		return &TupleV{V: []Value{set(ts.Int(new(big.Int).Mod(v, q))), &IfaceV{}}}
	case "String", "Text":
		return &StringV{S: "<felt>"}
	case "Sqrt":
		x := L(1)
		isSq := ts.Or(ts.Eq(x, z0), ts.App(ts.DeclareUF("fissquare!"+q.Text(62)[:6], []Sort{SInt}, SBool, nil, nil), x))
		r := ex.feltUF("fsqrt", q, x)
		// contract: r*r = x when x is a square
		ex.assume(ts.Implies(isSq, ts.Eq(ex.feltMul(r, r, q), x)))
		ex.assume(ts.Implies(ts.Eq(x, z0), ts.Eq(r, z0)))
		// field facts about known squares y*y: if y*y = x then x is a square and its root is y or -y
		qt := ts.Int(q)
		for _, sq := range ex.feltSquares {
			if sq.q.Cmp(q) != 0 {
				continue
			}
			same := ts.Eq(sq.sq, x)
			ex.assume(ts.Implies(same, ts.And(isSq, ts.Or(ts.Eq(r, sq.y), ts.Eq(ts.Add(r, sq.y), qt), ts.And(ts.Eq(r, z0), ts.Eq(sq.y, z0))))))
		}
		ex.feltSqrts = append(ex.feltSqrts, feltSqrt{x: x, r: r, isSq: isSq, q: q})
		old := L(0)
		ex.store(st, recv, ts.Ite(isSq, r, old))
		return ex.mergeVal(isSq, recv, &PtrV{})
	case "Legendre":
		x := L(0)
		isSq := ts.App(ts.DeclareUF("fissquare!"+q.Text(62)[:6], []Sort{SInt}, SBool, nil, nil), x)
		return ts.Ite(ts.Eq(x, z0), z0, ts.Ite(isSq, ts.Int64(1), ts.Int64(-1)))
	case "Exp":
		x := args[1].(*Term)
		k := ex.ldT(st, args[2])
		if k.IsConst() && k.ival.Sign() >= 0 && k.ival.Cmp(bi(32)) <= 0 {
			r := ts.Int64(1)
			for i := int64(0); i < k.ival.Int64(); i++ {
				r = ex.feltMul(r, x, q)
			}
			return set(r)
		}
		return set(ex.feltUF("fexp", q, x, ex.withRangeCopy(k)))
	case "SetRandom", "MustSetRandom":
		v := ex.newVar(ex.uniq("random"), SInt, bigZero, qm1)
		set(v)
		if name == "SetRandom" {
			return &TupleV{V: []Value{recv, &IfaceV{}}}
		}
		return recv
	case "SetInterface":
		fail("Element.SetInterface is not summarised in the felt interpretation")
	}
	fail("no felt summary for method %s", fn.String())
	return nil
}

func (ex *Exec) withRangeCopy(t *Term) *Term { return t }

// feltPkgFunc handles package-level functions and ByteOrder methods of a field package whose
// Element type is abstracted.
func (ex *Exec) feltPkgFunc(st *PState, fn *ssa.Function, full string, args []Value) (Value, bool) {
	ts := ex.ts
	if fn.Pkg == nil && fn.Signature.Recv() == nil {
		return nil, false
	}
	var pkg *types.Package
	if fn.Pkg != nil {
		pkg = fn.Pkg.Pkg
	} else if o := fn.Object(); o != nil {
		pkg = o.Pkg()
	}
	if pkg == nil {
		return nil, false
	}
	eo := pkg.Scope().Lookup("Element")
	if eo == nil {
		return nil, false
	}
	et := eo.Type()
	if ex.absKind(et) != "felt" {
		return nil, false
	}
	q := ex.feltModulus(et)
	qm1 := new(big.Int).Sub(q, bigOne)
	nbytes := ex.feltBytesOf(st, et)
	name := fn.Name()
	recvName := ""
	if r := fn.Signature.Recv(); r != nil {
		rt := r.Type()
		if p, ok := rt.(*types.Pointer); ok {
			rt = p.Elem()
		}
		if n, ok := types.Unalias(rt).(*types.Named); ok {
			recvName = n.Obj().Name()
		}
	}
	z0 := ts.Int64(0)
	switch {
	case (recvName == "bigEndian" || recvName == "littleEndian") && name == "Element":
		p := args[1]
		var parts []*Term
		for i := 0; i < nbytes; i++ {
			ep := ex.forAlts(p, func(g *Term, pv Value) Value {
				pp := pv.(*PtrV)
				if pp.Sub != nil {
					arr := walk(ex.objValue(st, pp.Obj), pp.Path).(*ArrayV)
					return ex.elemPtr(st, pp.Obj, pp.Path, ts.Add(pp.Sub.Off, ts.Int64(int64(i))), len(arr.E))
				}
				return &PtrV{Obj: pp.Obj, Path: appendPath(pp.Path, i)}
			})
			b := ex.load(st, ep).(*Term)
			sh := uint(8 * (nbytes - 1 - i))
			if recvName == "littleEndian" {
				sh = uint(8 * i)
			}
			parts = append(parts, ts.Mul(ts.Int(pow2(sh)), b))
		}
		v := ts.Add(parts...)
		good := ts.Lt(v, ts.Int(q))
		val := ex.withRange(ts.Ite(good, v, z0), bigZero, qm1)
		return &TupleV{V: []Value{val, ex.mergeVal(good, &IfaceV{}, ex.errorValue(st, "felt: invalid fr.Element encoding"))}}, true
	case (recvName == "bigEndian" || recvName == "littleEndian") && name == "PutElement":
		p := args[1].(*PtrV)
		x := args[2].(*Term)
		for i := 0; i < nbytes; i++ {
			k := i
			if recvName == "littleEndian" {
				k = nbytes - 1 - i
			}
			var ep Value
			if p.Sub != nil {
				arr := walk(ex.objValue(st, p.Obj), p.Path).(*ArrayV)
				ep = ex.elemPtr(st, p.Obj, p.Path, ts.Add(p.Sub.Off, ts.Int64(int64(i))), len(arr.E))
			} else {
				ep = &PtrV{Obj: p.Obj, Path: appendPath(p.Path, i)}
			}
			ex.store(st, ep, ex.feltByte(x, nbytes, k))
		}
		return nil, true
	case (recvName == "bigEndian" || recvName == "littleEndian") && name == "String":
		return &StringV{S: recvName}, true
	}
	return nil, false
}
