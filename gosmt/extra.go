package main

import (
	"go/types"

	"golang.org/x/tools/go/ssa"
)

// Extension points filled in as harness families need them.

// nonResidueAtom: the tower non-residue of an abstracted level is a named real constant
// (no value is assumed: identities hold for every value of the atom).
func (ex *Exec) nonResidueAtom(fn *ssa.Function) *Term {
	rt := fn.Signature.Recv().Type()
	if p, ok := rt.(*types.Pointer); ok {
		rt = p.Elem()
	}
	return ex.ts.Var("nonres!"+typeKey(rt), SReal, nil, nil)
}

func (ex *Exec) realMethodExtra(st *PState, fn *ssa.Function, args []Value) (Value, bool) {
	ts := ex.ts
	recv := args[0]
	switch fn.Name() {
	case "MulByNonResidue":
		ex.store(st, recv, ts.Mul(ex.nonResidueAtom(fn), ex.ldT(st, args[1])))
		return recv, true
	case "MulByNonResidueInv":
		ex.store(st, recv, ts.RDiv(ex.ldT(st, args[1]), ex.nonResidueAtom(fn)))
		return recv, true
	case "MulByElement":
		ex.store(st, recv, ts.Mul(ex.ldT(st, args[1]), ex.ldT(st, args[2])))
		return recv, true
	}
	return nil, false
}

func (ex *Exec) verifAbstractIntrinsic(st *PState, fn *ssa.Function, base string, args []Value) (Value, bool) {
	return nil, false
}
