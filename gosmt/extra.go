package main

import (
	"golang.org/x/tools/go/ssa"
)

// Extension points filled in as harness families need them.

func (ex *Exec) realMethodExtra(st *PState, fn *ssa.Function, args []Value) (Value, bool) {
	return nil, false
}

func (ex *Exec) verifAbstractIntrinsic(st *PState, fn *ssa.Function, base string, args []Value) (Value, bool) {
	return nil, false
}
