package main

// Symbolic executor over go/ssa with state merging (guards + ite), loop unrolling with
// unwinding assertions, and run-time panics as proof obligations.

import (
	"fmt"
	"go/constant"
	"go/token"
	"go/types"
	"math/big"
	"regexp"
	"sort"
	"strings"

	"golang.org/x/tools/go/ssa"
)

type HarnessCfg struct {
	Name       string
	Unroll     int
	Abstract   map[string]string // type pattern -> "real" | "int"
	MulMode    string            // "uf" (default) | "nia"
	AllowPanic bool
	TimeoutMs  int
	Feasible   bool // prune infeasible loop iterations with the solver
	Opts       map[string]string
	ExpectFail bool              // vacuity twin: must be sat
	Stubs      map[string]string // full function name -> harness-package function
	CapFunc    string            // function name whose source variables are captured
	CapVars    map[string]bool   // captured variable names
	CapTrigger string            // variable whose (re)definition takes a snapshot / cut
	CapCut     map[string]bool   // variables replaced by fresh constants at each trigger
	CutLoopFn  string            // function whose loop-carried variables (phis named in CapCut) are cut at every iteration
}

type Obligation struct {
	Kind  string // assert | panic | unwind | frame
	ID    string
	Cond  *Term // satisfiable (with assumptions) => violated
	Pos   string
	Order int
}

type PState struct {
	g    *Term
	heap *Heap
	env  map[ssa.Value]Value
}

type dmSource struct {
	s     *Term
	shift uint
}

type deferred struct {
	fn   Value
	args []Value
	g    *Term
	call *ssa.CallCommon
}

type activation struct {
	fn      *ssa.Function
	pending map[int][]incoming
	rets    []retState
	defers  []deferred
	entryG  *Term
	depth   int
	loops   *loopForest
}

type incoming struct {
	st   *PState
	pred *ssa.BasicBlock
}

type retState struct {
	st  *PState
	val Value
}

type Exec struct {
	ts               *TermStore
	prog             *ssa.Program
	harnessPkg       *ssa.Package
	cfg              *HarnessCfg
	solver           *Portfolio
	nextObj          int
	absCache         map[string]absRes
	nameCount        map[string]int
	declared         map[string]bool
	nondets          []*Term
	assumptions      []*Term
	obligations      []*Obligation
	globalObj        map[*ssa.Global]*Object
	globalInit       map[int]Value
	initDone         map[*ssa.Package]bool
	initRunning      map[*ssa.Package]bool
	notes            map[string]int
	depth            int
	loopCache        map[*ssa.Function]*loopForest
	funcsSeen        map[string]bool
	curFn            *ssa.Function
	curInstr         ssa.Instruction
	errObjs          map[string]*Object
	typeObjs         map[string]*Object
	steps            int
	ufAxiomDone      map[string]bool
	strIntern        map[string]int
	ghost            map[string]Value
	negOf            map[int]*Term
	dmCache          map[string][2]*Term
	defOf            map[int]*Term // auxiliary constant -> its definitional equation
	defAsserted      map[int]bool
	feltQ            map[string]*big.Int
	pinRe            *regexp.Regexp
	pinVals          map[string]*big.Int
	byteProv         map[int]byteProv
	feltSquares      []feltSquare
	feltSqrts        []feltSqrt
	feltSquareSeen   map[int]bool
	feltNegOf        map[int]*Term
	guardLitCache    map[int]map[int]bool
	guardDecideCache map[[2]int]int
	guardDecideSecs  float64
	dmSrc            map[int]dmSource
	modSrc           map[int]*Term // remainder constant -> the term it is the residue of
	limbBuf          map[string]map[int]*big.Int
	ufApps           map[string][]*ufApp
	capAll           map[string][]*Term   // every distinct definition of a captured variable, in order
	capLastReg       map[string]ssa.Value // SSA register currently holding the variable
	capSnaps         []map[string]*Term   // values of captured variables at each trigger
	capCutOld        []map[string]*Term   // values replaced at each trigger
	capCutNew        []map[string]*Term   // fresh constants introduced at each trigger
	capFinal         map[string]*Term
	capLastVal       map[string]Value
	ufAppSeen        map[string]bool
	lenientFn        *ssa.Function // top-level init function executed leniently (failing instructions are skipped)
	folded           int
	eagerPanics      int
	guardValid       map[int]bool
	foldedIDs        []string
}

func NewExec(prog *ssa.Program, cfg *HarnessCfg) *Exec {
	return &Exec{ts: NewTermStore(), prog: prog, cfg: cfg,
		absCache: map[string]absRes{}, nameCount: map[string]int{}, declared: map[string]bool{},
		globalObj: map[*ssa.Global]*Object{}, globalInit: map[int]Value{},
		initDone: map[*ssa.Package]bool{}, initRunning: map[*ssa.Package]bool{},
		notes: map[string]int{}, loopCache: map[*ssa.Function]*loopForest{},
		funcsSeen: map[string]bool{}, errObjs: map[string]*Object{}, typeObjs: map[string]*Object{},
		ufAxiomDone: map[string]bool{}, strIntern: map[string]int{}, ghost: map[string]Value{}, negOf: map[int]*Term{}, dmCache: map[string][2]*Term{}, defOf: map[int]*Term{}, defAsserted: map[int]bool{}, feltQ: map[string]*big.Int{}, byteProv: map[int]byteProv{}, feltSquareSeen: map[int]bool{}, feltNegOf: map[int]*Term{}, guardLitCache: map[int]map[int]bool{}, guardDecideCache: map[[2]int]int{}, dmSrc: map[int]dmSource{}, modSrc: map[int]*Term{}, limbBuf: map[string]map[int]*big.Int{}, guardValid: map[int]bool{}, ufApps: map[string][]*ufApp{}, capAll: map[string][]*Term{}, capLastReg: map[string]ssa.Value{}, capFinal: map[string]*Term{}, capLastVal: map[string]Value{}, ufAppSeen: map[string]bool{}}
}

func (ex *Exec) note(s string) { ex.notes[s]++ }

func (ex *Exec) assume(t *Term) {
	if t.IsTrue() {
		return
	}
	ex.assumptions = append(ex.assumptions, t)
	if ex.solver != nil {
		for _, d := range ex.defClosure([]*Term{t}) {
			ex.defAsserted[d.id] = true
			ex.solver.Assert(d)
		}
		ex.solver.Assert(t)
	}
}

// defClosure returns the definitional equations (of divmod auxiliaries) that the given terms
// depend on, transitively, and that are not yet permanently asserted.
func (ex *Exec) defClosure(roots []*Term) []*Term {
	seen := map[int]bool{}
	var out []*Term
	stack := append([]*Term{}, roots...)
	for len(stack) > 0 {
		t := stack[len(stack)-1]
		stack = stack[:len(stack)-1]
		if seen[t.id] {
			continue
		}
		seen[t.id] = true
		if t.op == "var" {
			if d, ok := ex.defOf[t.id]; ok && !ex.defAsserted[d.id] && !seen[-d.id] {
				seen[-d.id] = true
				out = append(out, d)
				stack = append(stack, d)
			}
			continue
		}
		stack = append(stack, t.args...)
	}
	return out
}

// check decides satisfiability of assumptions ∧ conds, adding exactly the auxiliary definitions
// the query depends on.
func (ex *Exec) check(conds []*Term, want []*Term) CheckResult {
	defs := ex.defClosure(conds)
	return ex.solver.Check(append(append([]*Term{}, conds...), defs...), want)
}

func (ex *Exec) pos() string {
	if ex.curInstr != nil && ex.curInstr.Pos().IsValid() {
		p := ex.prog.Fset.Position(ex.curInstr.Pos())
		fn := ""
		if ex.curFn != nil {
			fn = ex.curFn.Name()
		}
		return fmt.Sprintf("%s:%d(%s)", shortFile(p.Filename), p.Line, fn)
	}
	if ex.curFn != nil {
		return ex.curFn.String()
	}
	return "?"
}

func shortFile(f string) string {
	f = strings.TrimPrefix(f, "/repo/")
	return f
}

func (ex *Exec) addObligation(st *PState, propHolds *Term, kind, id string) {
	// violated iff guard ∧ ¬prop is satisfiable
	c := ex.ts.And(st.g, ex.ts.Not(propHolds))
	if c.IsFalse() {
		if kind == "assert" {
			ex.folded++
			ex.foldedIDs = append(ex.foldedIDs, id+" @ "+ex.pos())
		}
		return
	}
	ex.obligations = append(ex.obligations, &Obligation{Kind: kind, ID: id, Cond: c, Pos: ex.pos(), Order: len(ex.obligations)})
}

// panicObligation: under condition c (within st's guard) the program panics. The surviving
// state continues with ¬c.
func (ex *Exec) panicObligation(st *PState, c *Term, msg string) {
	if c.IsFalse() {
		return
	}
	cond := ex.ts.And(st.g, c)
	if cond.IsFalse() {
		return
	}
	if !ex.cfg.AllowPanic {
		// eager discharge: a panic condition that is unsatisfiable right away neither becomes a
		// pending obligation nor narrows the path guard (keeps guards, and with them every later
		// assumption and query, small)
		if ex.solver != nil && ex.cfg.Opts["eagerpanic"] != "0" && ex.initRunningAny() == false {
			if r := ex.checkQuick([]*Term{cond}); r == "unsat" {
				ex.eagerPanics++
				if c.IsTrue() {
					st.g = ex.ts.Bool(false) // the state itself is unreachable
				}
				return
			}
		}
		ex.obligations = append(ex.obligations, &Obligation{Kind: "panic", ID: msg, Cond: cond, Pos: ex.pos(), Order: len(ex.obligations)})
	}
	st.g = ex.ts.And(st.g, ex.ts.Not(c))
}

// simplifyGuard replaces a path guard that is valid under the assumptions (a tautology that the
// syntactic simplifier did not recognise, e.g. a multi-way merge of exhaustive branches) by true.
func (ex *Exec) simplifyGuard(st *PState) {
	if st.g.IsConst() || ex.solver == nil {
		return
	}
	if v, ok := ex.guardValid[st.g.id]; ok {
		if v {
			st.g = ex.ts.Bool(true)
		}
		return
	}
	r := ex.checkQuick([]*Term{ex.ts.Not(st.g)})
	ex.guardValid[st.g.id] = r == "unsat"
	if r == "unsat" {
		st.g = ex.ts.Bool(true)
	}
}

func (ex *Exec) initRunningAny() bool {
	for _, v := range ex.initRunning {
		if v {
			return true
		}
	}
	return false
}

// checkQuick: satisfiability with the first solver of the chain only.
func (ex *Exec) checkQuick(conds []*Term) string {
	defs := ex.defClosure(conds)
	s := ex.solver.get(0)
	if s == nil {
		return "unknown"
	}
	r := s.Check(append(append([]*Term{}, conds...), defs...), nil)
	ex.solver.Queries++
	ex.solver.Seconds += r.Secs
	if s.dead {
		ex.solver.solvers[0] = nil
	}
	return r.Status
}

// ---------- loop forest / block ordering ----------

type loopInfo struct {
	header *ssa.BasicBlock
	body   map[int]bool
	items  []item
}
type item struct {
	block *ssa.BasicBlock
	loop  *loopInfo
}
type loopForest struct {
	items []item
}

func (ex *Exec) loopsOf(fn *ssa.Function) *loopForest {
	if lf, ok := ex.loopCache[fn]; ok {
		return lf
	}
	all := map[int]bool{}
	for _, b := range fn.Blocks {
		all[b.Index] = true
	}
	lf := &loopForest{items: orderRegion(fn, all, fn.Blocks[0], nil)}
	ex.loopCache[fn] = lf
	return lf
}

// orderRegion orders the blocks of region (a set of block indices with single entry) so that
// inner loops are contiguous super-nodes. hdr is the header whose incoming back edges are ignored.
func orderRegion(fn *ssa.Function, region map[int]bool, entry *ssa.BasicBlock, hdr *ssa.BasicBlock) []item {
	// find loops whose header is in region (other than hdr): back edge u->h with h dominating u
	loopBody := map[int]map[int]bool{} // header idx -> body
	for idx := range region {
		b := fn.Blocks[idx]
		for _, s := range b.Succs {
			if !region[s.Index] || s == hdr {
				continue
			}
			if s.Dominates(b) { // back edge b -> s
				body := loopBody[s.Index]
				if body == nil {
					body = map[int]bool{s.Index: true}
					loopBody[s.Index] = body
				}
				// natural loop: nodes reaching b without passing s
				stack := []*ssa.BasicBlock{b}
				for len(stack) > 0 {
					n := stack[len(stack)-1]
					stack = stack[:len(stack)-1]
					if body[n.Index] {
						continue
					}
					body[n.Index] = true
					for _, p := range n.Preds {
						if region[p.Index] {
							stack = append(stack, p)
						}
					}
				}
			}
		}
	}
	// top-level loops: headers not contained in another loop's body (other than own)
	var headers []int
	for h := range loopBody {
		headers = append(headers, h)
	}
	sort.Ints(headers)
	owner := map[int]int{} // block -> top-level loop header
	top := map[int]bool{}
	for _, h := range headers {
		inner := false
		for _, h2 := range headers {
			if h2 != h && loopBody[h2][h] {
				inner = true
			}
		}
		if !inner {
			top[h] = true
		}
	}
	for _, h := range headers {
		if top[h] {
			for b := range loopBody[h] {
				owner[b] = h
			}
		}
	}
	node := func(b int) int { // super node id
		if h, ok := owner[b]; ok {
			return h
		}
		return b
	}
	// DFS topo sort on condensed graph
	visited := map[int]bool{}
	var post []int
	var dfs func(n int)
	dfs = func(n int) {
		visited[n] = true
		var members []int
		if top[n] {
			for b := range loopBody[n] {
				members = append(members, b)
			}
			sort.Ints(members)
		} else {
			members = []int{n}
		}
		var succs []int
		seen := map[int]bool{}
		for _, m := range members {
			for _, s := range fn.Blocks[m].Succs {
				if !region[s.Index] || s == hdr {
					continue
				}
				sn := node(s.Index)
				if sn == n || seen[sn] {
					continue
				}
				seen[sn] = true
				succs = append(succs, sn)
			}
		}
		// visit higher-index successors first so that lower ones come earlier in reverse postorder
		sort.Sort(sort.Reverse(sort.IntSlice(succs)))
		for _, s := range succs {
			if !visited[s] {
				dfs(s)
			}
		}
		post = append(post, n)
	}
	dfs(node(entry.Index))
	var items []item
	for i := len(post) - 1; i >= 0; i-- {
		n := post[i]
		if top[n] {
			li := &loopInfo{header: fn.Blocks[n], body: loopBody[n]}
			li.items = orderRegion(fn, loopBody[n], fn.Blocks[n], fn.Blocks[n])
			items = append(items, item{loop: li})
		} else {
			items = append(items, item{block: fn.Blocks[n]})
		}
	}
	return items
}

// ---------- function execution ----------

const maxDepth = 400

func (ex *Exec) callFunction(st *PState, fn *ssa.Function, args []Value, bindings []Value) Value {
	if fn.Blocks == nil {
		fail("call to function without body: %s", fn.String())
	}
	ex.depth++
	if ex.depth > maxDepth {
		fail("call depth exceeded at %s", fn)
	}
	defer func() { ex.depth-- }()
	ex.funcsSeen[fn.String()] = true
	saveFn, saveInstr := ex.curFn, ex.curInstr
	completed := false
	defer func() {
		if completed { // keep the failing position when unwinding with an error
			ex.curFn, ex.curInstr = saveFn, saveInstr
		}
	}()
	ex.curFn = fn

	act := &activation{fn: fn, pending: map[int][]incoming{}, entryG: st.g, loops: ex.loopsOf(fn)}
	env := make(map[ssa.Value]Value, 64)
	for i, p := range fn.Params {
		env[p] = args[i]
	}
	for i, fv := range fn.FreeVars {
		env[fv] = bindings[i]
	}
	entry := &PState{g: st.g, heap: st.heap, env: env}
	act.pending[0] = []incoming{{st: entry}}
	ex.execItems(act, act.loops.items)
	completed = true
	// merge returns
	if len(act.rets) == 0 {
		st.g = ex.ts.Bool(false)
		return nil
	}
	res := act.rets[len(act.rets)-1]
	g, heap, val := res.st.g, res.st.heap, res.val
	for i := len(act.rets) - 2; i >= 0; i-- {
		r := act.rets[i]
		heap = ex.mergeHeaps(r.st.g, r.st.heap, heap)
		val = ex.mergeVal(r.st.g, r.val, val)
		g = ex.ts.Or(r.st.g, g)
	}
	st.g = g
	st.heap = heap
	return val
}

func (ex *Exec) execItems(act *activation, items []item) {
	for _, it := range items {
		if it.block != nil {
			inc := act.pending[it.block.Index]
			if len(inc) == 0 {
				continue
			}
			delete(act.pending, it.block.Index)
			st := ex.mergeIncoming(it.block, inc)
			if st != nil && ex.cfg.CutLoopFn != "" && act.fn.Name() == ex.cfg.CutLoopFn {
				st = ex.cutLoopPhis(it.block, st)
			}
			if st == nil {
				continue
			}
			ex.execBlock(act, it.block, st)
		} else {
			ex.execLoop(act, it.loop)
		}
	}
}

func (ex *Exec) unrollBound(fn *ssa.Function) int {
	if ex.cfg.Unroll > 0 {
		return ex.cfg.Unroll
	}
	return 70
}

func (ex *Exec) execLoop(act *activation, l *loopInfo) {
	h := l.header.Index
	iter := 0
	bound := ex.unrollBound(act.fn)
	var entryG *Term
	for len(act.pending[h]) > 0 {
		iter++
		inc := act.pending[h]
		if iter == 1 {
			gs := []*Term{}
			for _, i := range inc {
				gs = append(gs, i.st.g)
			}
			entryG = ex.ts.Or(gs...)
		} else {
			// back-edge states: feasibility pruning / unwinding assertion
			var keep []incoming
			for _, i := range inc {
				if i.st.g.IsFalse() {
					continue
				}
				if i.st.g != entryG && (ex.cfg.Feasible || iter > bound) && ex.solver != nil {
					r := ex.check([]*Term{i.st.g}, nil)
					if r.Status == "unsat" {
						continue
					}
				}
				keep = append(keep, i)
			}
			inc = keep
			if len(inc) == 0 {
				delete(act.pending, h)
				break
			}
			act.pending[h] = inc
		}
		if iter > bound {
			saveI := ex.curInstr
			if len(l.header.Instrs) > 0 {
				ex.curInstr = l.header.Instrs[len(l.header.Instrs)-1]
			}
			for _, i := range inc {
				ex.obligations = append(ex.obligations, &Obligation{Kind: "unwind", ID: fmt.Sprintf("loop bound %d exceeded in %s", bound, act.fn.Name()), Cond: i.st.g, Pos: ex.pos(), Order: len(ex.obligations)})
			}
			ex.curInstr = saveI
			delete(act.pending, h)
			break
		}
		ex.execItems(act, l.items)
	}
}

func (ex *Exec) mergeIncoming(b *ssa.BasicBlock, inc []incoming) *PState {
	// compute phi values per incoming state, then merge
	type ps struct {
		st   *PState
		phis []Value
	}
	var list []ps
	for _, in := range inc {
		if in.st.g.IsFalse() {
			continue
		}
		var phis []Value
		if in.pred != nil {
			pi := -1
			for k, p := range b.Preds {
				if p == in.pred {
					pi = k
					break
				}
			}
			for _, instr := range b.Instrs {
				phi, ok := instr.(*ssa.Phi)
				if !ok {
					break
				}
				phis = append(phis, ex.operand(in.st, phi.Edges[pi]))
			}
		}
		list = append(list, ps{in.st, phis})
	}
	if len(list) == 0 {
		return nil
	}
	res := list[len(list)-1]
	st := res.st
	phis := res.phis
	for i := len(list) - 2; i >= 0; i-- {
		o := list[i]
		g := o.st.g
		nst := &PState{g: ex.ts.Or(g, st.g)}
		nst.heap = ex.mergeHeaps(g, o.st.heap, st.heap)
		// env merge
		if o.st.env == nil || sameEnv(o.st.env, st.env) {
			nst.env = st.env
		} else {
			nst.env = make(map[ssa.Value]Value, len(st.env))
			for k, v := range st.env {
				nst.env[k] = v
			}
			for k, v := range o.st.env {
				if w, ok := nst.env[k]; ok {
					if w != v {
						nst.env[k] = ex.mergeVal(g, v, w)
					}
				} else {
					nst.env[k] = v
				}
			}
		}
		np := make([]Value, len(phis))
		for k := range phis {
			np[k] = ex.mergeVal(g, o.phis[k], phis[k])
		}
		st, phis = nst, np
	}
	if len(phis) > 0 {
		// need private env
		env := make(map[ssa.Value]Value, len(st.env)+len(phis))
		for k, v := range st.env {
			env[k] = v
		}
		k := 0
		for _, instr := range b.Instrs {
			phi, ok := instr.(*ssa.Phi)
			if !ok {
				break
			}
			env[phi] = phis[k]
			k++
		}
		st = &PState{g: st.g, heap: st.heap, env: env}
	}
	return st
}

// cutLoopPhis: at the head of a loop of the designated function, the loop-carried variables named
// in CapCut are replaced by fresh constants (a cut point: one iteration is then verified from an
// arbitrary state constrained only by the invariant the harness assumes).
func (ex *Exec) cutLoopPhis(b *ssa.BasicBlock, st *PState) *PState {
	if !strings.HasSuffix(b.Comment, ".loop") {
		return st // only loop headers are cut points
	}
	var phis []*ssa.Phi
	for _, instr := range b.Instrs {
		phi, ok := instr.(*ssa.Phi)
		if !ok {
			break
		}
		if ex.cfg.CapCut[phi.Comment] {
			phis = append(phis, phi)
		}
	}
	if len(phis) == 0 {
		return st
	}
	k := len(ex.capSnaps)
	snap := map[string]*Term{}
	olds := map[string]*Term{}
	news := map[string]*Term{}
	env := make(map[ssa.Value]Value, len(st.env))
	for kk, vv := range st.env {
		env[kk] = vv
	}
	for _, phi := range phis {
		cur, ok := st.env[phi].(*Term)
		if !ok {
			continue
		}
		snap[phi.Comment] = cur
		olds[phi.Comment] = cur
		if cur.IsConst() || ex.pinRe != nil {
			news[phi.Comment] = cur
			continue
		}
		lo, hi := cur.lo, cur.hi
		if ii, ok := basicIntInfo(phi.Type()); ok {
			lo, hi = ii.lo, ii.hi
		}
		nv := ex.ts.Var(fmt.Sprintf("cut!%s!%d", phi.Comment, k), cur.sort, lo, hi)
		news[phi.Comment] = nv
		env[phi] = nv
	}
	ex.capSnaps = append(ex.capSnaps, snap)
	ex.capCutOld = append(ex.capCutOld, olds)
	ex.capCutNew = append(ex.capCutNew, news)
	return &PState{g: st.g, heap: st.heap, env: env}
}

func sameEnv(a, b map[ssa.Value]Value) bool {
	if len(a) != len(b) {
		return false
	}
	// cheap identity check via one sentinel: maps are reference types
	return fmt.Sprintf("%p", a) == fmt.Sprintf("%p", b)
}

func (st *PState) fork(g *Term) *PState {
	env := make(map[ssa.Value]Value, len(st.env)+16)
	for k, v := range st.env {
		env[k] = v
	}
	return &PState{g: g, heap: st.heap.Clone(), env: env}
}

func (ex *Exec) deposit(act *activation, from, to *ssa.BasicBlock, st *PState) {
	if st.g.IsFalse() {
		return
	}
	act.pending[to.Index] = append(act.pending[to.Index], incoming{st: st, pred: from})
}

func (ex *Exec) execBlock(act *activation, b *ssa.BasicBlock, st *PState) {
	// private heap for this block's state
	st = &PState{g: st.g, heap: st.heap.Clone(), env: st.env}
	envPrivate := false
	setEnv := func(k ssa.Value, v Value) {
		if !envPrivate {
			n := make(map[ssa.Value]Value, len(st.env)+len(b.Instrs))
			for kk, vv := range st.env {
				n[kk] = vv
			}
			st.env = n
			envPrivate = true
		}
		st.env[k] = v
	}
	for _, instr := range b.Instrs {
		ex.curInstr = instr
		ex.steps++
		if st.g.IsFalse() {
			return
		}
		if ex.lenientFn != nil && act.fn.Pkg == ex.lenientFn.Pkg && strings.HasPrefix(act.fn.Name(), "init") && act.fn.Signature.Recv() == nil {
			if _, isCtl := instr.(*ssa.If); !isCtl {
				if _, isJ := instr.(*ssa.Jump); !isJ {
					if _, isR := instr.(*ssa.Return); !isR {
						if ex.lenientStep(act, st, instr, setEnv) {
							continue
						}
					}
				}
			}
		}
		switch in := instr.(type) {
		case *ssa.Phi:
			continue // handled in mergeIncoming
		case *ssa.If:
			c := ex.operand(st, in.Cond).(*Term)
			if c.IsTrue() {
				ex.deposit(act, b, b.Succs[0], st)
			} else if c.IsFalse() {
				ex.deposit(act, b, b.Succs[1], st)
			} else {
				t := &PState{g: ex.ts.And(st.g, c), heap: st.heap, env: st.env}
				f := &PState{g: ex.ts.And(st.g, ex.ts.Not(c)), heap: st.heap, env: st.env}
				if ex.cfg.Feasible && ex.solver != nil {
					if r := ex.checkQuick([]*Term{t.g}); r == "unsat" {
						t.g = ex.ts.Bool(false)
						f.g = st.g
					} else if r := ex.checkQuick([]*Term{f.g}); r == "unsat" {
						f.g = ex.ts.Bool(false)
						t.g = st.g
					}
				}
				ex.deposit(act, b, b.Succs[0], t)
				ex.deposit(act, b, b.Succs[1], f)
			}
			return
		case *ssa.Jump:
			ex.deposit(act, b, b.Succs[0], st)
			return
		case *ssa.Return:
			var v Value
			if len(in.Results) == 1 {
				v = ex.operand(st, in.Results[0])
			} else if len(in.Results) > 1 {
				tv := &TupleV{V: make([]Value, len(in.Results))}
				for i, r := range in.Results {
					tv.V[i] = ex.operand(st, r)
				}
				v = tv
			}
			act.rets = append(act.rets, retState{st: st, val: v})
			return
		case *ssa.Panic:
			msg := "panic"
			x := ex.operand(st, in.X)
			if iv, ok := x.(*IfaceV); ok {
				if s, ok := iv.V.(*StringV); ok && s.Bytes == nil {
					msg = "panic: " + s.S
				} else if iv.T != nil {
					msg = "panic(" + iv.T.String() + ")"
				}
			}
			ex.panicObligation(st, ex.ts.Bool(true), msg)
			return
		case *ssa.RunDefers:
			for i := len(act.defers) - 1; i >= 0; i-- {
				d := act.defers[i]
				if d.g == act.entryG || d.g == st.g {
					ex.invoke(st, d.fn, d.args, d.call)
				} else if rest0 := ex.ts.And(st.g, ex.ts.Not(d.g)); rest0.IsFalse() || (ex.solver != nil && ex.checkQuick([]*Term{rest0}) == "unsat") {
					// the deferred call was registered on every path that reaches this point
					ex.invoke(st, d.fn, d.args, d.call)
				} else {
					sub := st.fork(ex.ts.And(st.g, d.g))
					rest := ex.ts.And(st.g, ex.ts.Not(d.g))
					if !sub.g.IsFalse() {
						ex.invoke(sub, d.fn, d.args, d.call)
						st.heap = ex.mergeHeaps(sub.g, sub.heap, st.heap)
						st.g = ex.ts.Or(sub.g, rest)
					}
				}
			}
			act.defers = nil
		case *ssa.Defer:
			fnv, args := ex.prepareCall(st, &in.Call)
			act.defers = append(act.defers, deferred{fn: fnv, args: args, g: st.g, call: &in.Call})
		case *ssa.Go:
			fnv, args := ex.prepareCall(st, &in.Call)
			ex.note("goroutine run synchronously at spawn")
			ex.invoke(st, fnv, args, &in.Call)
		case *ssa.Store:
			ex.store(st, ex.operand(st, in.Addr), ex.operand(st, in.Val))
		case *ssa.MapUpdate:
			ex.mapUpdate(st, ex.operand(st, in.Map), ex.operand(st, in.Key), ex.operand(st, in.Value))
		case *ssa.Send:
			ex.chanSend(st, ex.operand(st, in.Chan), ex.operand(st, in.X))
		case *ssa.DebugRef:
			if ex.cfg.CapFunc != "" && act.fn.Name() == ex.cfg.CapFunc {
				ex.captureRef(st, in, setEnv)
			}
			continue
		case ssa.Value:
			v := ex.evalValue(act, st, in)
			setEnv(in, v)
		default:
			fail("unsupported instruction %T", instr)
		}
	}
}

// captureRef tracks source-level variables of the configured function (ghost observation of
// intermediate values, and cut points at which they are replaced by fresh constants).
func (ex *Exec) captureRef(st *PState, in *ssa.DebugRef, setEnv func(ssa.Value, Value)) {
	obj := in.Object()
	if obj == nil || in.IsAddr {
		return
	}
	name := obj.Name()
	isTrig := name == ex.cfg.CapTrigger
	if !ex.cfg.CapVars[name] && !isTrig {
		return
	}
	v, ok := st.env[in.X]
	if ex.capLastReg[name] == in.X && ok && ex.capLastVal[name] == v {
		return
	}
	if !ok {
		if c, isC := in.X.(*ssa.Const); isC {
			v = ex.constValue(c)
		} else {
			return
		}
	}
	ex.capLastVal[name] = v
	if _, isP := v.(*PtrV); isP && ex.cfg.CapVars[name] {
		// pointer-typed variable (e.g. the receiver): tracked for memory cuts at triggers
		ex.capLastReg[name] = in.X
		return
	}
	t, isT := v.(*Term)
	if !isT {
		return
	}
	ex.capLastReg[name] = in.X
	if ex.cfg.CapVars[name] {
		ex.capAll[name] = append(ex.capAll[name], t)
		ex.capFinal[name] = t
	}
	if isTrig {
		snap := map[string]*Term{}
		olds := map[string]*Term{}
		news := map[string]*Term{}
		k := len(ex.capSnaps)
		for vn := range ex.cfg.CapVars {
			reg, has := ex.capLastReg[vn]
			if !has {
				continue
			}
			if pv, isP := st.env[reg].(*PtrV); isP && pv.Obj != nil {
				// memory cut: the abstract leaf the pointer refers to
				leaf, isT := ex.load(st, pv).(*Term)
				if !isT {
					continue
				}
				snap[vn] = leaf
				if ex.cfg.CapCut[vn] && !leaf.IsConst() {
					if ex.pinRe != nil {
						olds[vn], news[vn] = leaf, leaf
					} else {
						nv := ex.ts.Var(fmt.Sprintf("cut!%s!%d", vn, k), leaf.sort, nil, nil)
						olds[vn], news[vn] = leaf, nv
						ex.store(st, pv, nv)
					}
				}
				continue
			}
			cur, ok := st.env[reg].(*Term)
			if !ok {
				continue
			}
			snap[vn] = cur
			if ex.cfg.CapCut[vn] && ex.pinRe != nil {
				// exact (pinned) re-run: observe only, so that a model is an end-to-end input
				olds[vn] = cur
				news[vn] = cur
			} else if ex.cfg.CapCut[vn] && !cur.IsConst() {
				lo, hi := cur.lo, cur.hi
				if ii, ok := basicIntInfo(reg.Type()); ok {
					lo, hi = ii.lo, ii.hi
				}
				nv := ex.ts.Var(fmt.Sprintf("cut!%s!%d", vn, k), SInt, lo, hi)
				olds[vn] = cur
				news[vn] = nv
				setEnv(reg, nv)
				ex.capFinal[vn] = nv
			}
		}
		ex.capSnaps = append(ex.capSnaps, snap)
		ex.capCutOld = append(ex.capCutOld, olds)
		ex.capCutNew = append(ex.capCutNew, news)
	}
}

// lenientStep executes one non-control instruction of a package init, skipping it on an
// executor error (used when the package's own types are abstracted, so that its limb-level
// constant tables are irrelevant). Returns true if the instruction was handled.
func (ex *Exec) lenientStep(act *activation, st *PState, instr ssa.Instruction, setEnv func(ssa.Value, Value)) (handled bool) {
	defer func() {
		if r := recover(); r != nil {
			if ee, ok := r.(execError); ok {
				ex.note("lenient init: skipped instruction in " + act.fn.Pkg.Pkg.Path())
				if len(ex.notes) < 40 {
					ex.note("lenient init skip reason: " + ee.msg)
				}
				handled = true
				return
			}
			panic(r)
		}
	}()
	switch in := instr.(type) {
	case *ssa.Store:
		ex.store(st, ex.operand(st, in.Addr), ex.operand(st, in.Val))
		return true
	case ssa.Value:
		if _, isPhi := in.(*ssa.Phi); isPhi {
			return false
		}
		// calls to the package's own init#k functions stay lenient; everything else is strict
		isInitCall := false
		if c, ok := in.(*ssa.Call); ok {
			if f := c.Call.StaticCallee(); f != nil && f.Pkg == act.fn.Pkg && strings.HasPrefix(f.Name(), "init") {
				isInitCall = true
			}
		}
		if !isInitCall {
			save := ex.lenientFn
			ex.lenientFn = nil
			defer func() { ex.lenientFn = save }()
		}
		v := ex.evalValue(act, st, in)
		setEnv(in, v)
		return true
	}
	return false
}

func (ex *Exec) operand(st *PState, v ssa.Value) Value {
	switch c := v.(type) {
	case *ssa.Const:
		return ex.constValue(c)
	case *ssa.Global:
		return &PtrV{Obj: ex.globalObject(c)}
	case *ssa.Function:
		return &FuncV{Fn: c}
	case *ssa.Builtin:
		return &FuncV{Builtin: c.Name()}
	}
	if r, ok := st.env[v]; ok {
		return r
	}
	fail("undefined SSA value %s (%T) in %s", v.Name(), v, ex.curFn)
	return nil
}

func (ex *Exec) constValue(c *ssa.Const) Value {
	t := c.Type()
	if c.Value == nil {
		return ex.zeroValue(t)
	}
	if s, ok := ex.abstractSort(t); ok {
		// numeric constant converted to an abstract type: not expected
		_ = s
		fail("constant of abstract type %s", t)
	}
	switch {
	case isBool(t):
		return ex.ts.Bool(constant.BoolVal(c.Value))
	case isString(t):
		return &StringV{S: constant.StringVal(c.Value)}
	case isFloat(t):
		r, ok := new(big.Rat).SetString(c.Value.ExactString())
		if !ok {
			fail("float const %s", c.Value)
		}
		return ex.ts.Real(r)
	}
	if _, ok := basicIntInfo(t); ok {
		v := constant.ToInt(c.Value)
		bi, ok := new(big.Int).SetString(v.ExactString(), 10)
		if !ok {
			fail("int const %s", c.Value)
		}
		return ex.ts.Int(bi)
	}
	fail("unsupported constant %s of type %s", c.Value, t)
	return nil
}

// ---------- globals and package init ----------

func (ex *Exec) globalObject(g *ssa.Global) *Object {
	if o, ok := ex.globalObj[g]; ok {
		return o
	}
	et := g.Type().(*types.Pointer).Elem()
	o := ex.newObject(g.Pkg.Pkg.Name()+"."+g.Name(), et)
	o.Global = true
	if ex.cfg.Opts["globals_readonly"] == "1" {
		o.ReadOnly = true
	}
	ex.globalObj[g] = o
	ex.globalInit[o.ID] = ex.zeroValue(et)
	if g.Pkg != nil && !strings.HasPrefix(g.Name(), "init$") {
		ex.ensureInit(g.Pkg)
	}
	return o
}

func (ex *Exec) ensureInit(pkg *ssa.Package) {
	if ex.initDone[pkg] || ex.initRunning[pkg] {
		return
	}
	initFn := pkg.Func("init")
	if initFn == nil || initFn.Blocks == nil {
		ex.initDone[pkg] = true
		return
	}
	if skipInitPkgs[pkg.Pkg.Path()] {
		ex.initDone[pkg] = true
		return
	}
	ex.initRunning[pkg] = true
	firstObj := ex.nextObj
	st := &PState{g: ex.ts.Bool(true), heap: NewHeap()}
	saveCfg := *ex.cfg
	ex.cfg.AllowPanic = false
	ex.cfg.Unroll = 1 << 20 // package initialisation is concrete: loops run to completion
	saveObl := len(ex.obligations)
	saveDepth := ex.depth
	ex.depth = 0
	func() {
		defer func() {
			if r := recover(); r != nil {
				if ee, ok := r.(execError); ok {
					panic(execError{fmt.Sprintf("in init of %s: %s", pkg.Pkg.Path(), ee.msg)})
				}
				panic(r)
			}
		}()
		// globals of this package written in init must not be read-only while init runs
		ro := ex.cfg.Opts["globals_readonly"]
		if ro != "" {
			ex.cfg.Opts["globals_readonly"] = ""
			for _, o := range ex.globalObj {
				o.ReadOnly = false
			}
		}
		lenient := ex.cfg.Opts["lenientinit"] == "1"
		for pat := range ex.cfg.Abstract {
			if strings.Contains(pat, ".") && strings.HasSuffix(pkg.Pkg.Path(), pat[:strings.LastIndex(pat, ".")]) {
				lenient = true
			}
		}
		saveL := ex.lenientFn
		if lenient {
			ex.lenientFn = initFn
		}
		ex.callFunction(st, initFn, nil, nil)
		ex.lenientFn = saveL
		if ro != "" {
			ex.cfg.Opts["globals_readonly"] = ro
			for _, o := range ex.globalObj {
				o.ReadOnly = true
			}
		}
	}()
	ex.depth = saveDepth
	*ex.cfg = saveCfg
	// obligations raised inside init are dropped (init is concrete library code), except that an
	// unwinding failure would mean that part of the initialisation was silently cut off
	for _, o := range ex.obligations[saveObl:] {
		if o.Kind == "unwind" {
			fail("loop bound exceeded during initialisation of %s (%s)", pkg.Pkg.Path(), o.ID)
		}
	}
	ex.obligations = ex.obligations[:saveObl]
	_ = firstObj
	st.heap.each(func(id int, v Value) { ex.globalInit[id] = v })
	ex.initDone[pkg] = true
	ex.initRunning[pkg] = false
}

var skipInitPkgs = map[string]bool{
	"os": true, "fmt": true, "runtime": true, "sync": true, "reflect": true, "unicode": true, "time": true,
	"syscall": true, "internal/cpu": true, "golang.org/x/sys/cpu": true,
	"strconv": true, "math/rand": true, "crypto/rand": true, "math/big": true,
}

// ---------- values ----------

func (ex *Exec) evalValue(act *activation, st *PState, v ssa.Value) Value {
	ts := ex.ts
	switch in := v.(type) {
	case *ssa.Alloc:
		et := in.Type().(*types.Pointer).Elem()
		o := ex.alloc(st, in.Comment, et, ex.zeroValue(et))
		return &PtrV{Obj: o}
	case *ssa.FieldAddr:
		return ex.forAlts(ex.operand(st, in.X), func(g *Term, p Value) Value {
			pv := p.(*PtrV)
			if pv.Obj == nil {
				ex.panicObligation(st, g, "nil pointer dereference (field)")
				return pv
			}
			if _, ok := ex.abstractSort(in.X.Type().(*types.Pointer).Elem()); ok {
				fail("field access into abstracted type %s", in.X.Type())
			}
			if ex.vecDim(in.X.Type()) > 0 {
				fail("field access into module-abstracted type %s", in.X.Type())
			}
			return &PtrV{Obj: pv.Obj, Path: appendPath(pv.Path, in.Field)}
		})
	case *ssa.Field:
		x := ex.operand(st, in.X)
		s, ok := x.(*StructV)
		if !ok {
			fail("field of %T", x)
		}
		return s.F[in.Field]
	case *ssa.IndexAddr:
		return ex.indexAddr(st, in)
	case *ssa.Index:
		return ex.index(st, in)
	case *ssa.UnOp:
		return ex.unop(st, in)
	case *ssa.BinOp:
		return ex.binop(st, in.Op, ex.operand(st, in.X), ex.operand(st, in.Y), in.X.Type(), in.Y.Type(), in.Type())
	case *ssa.Call:
		fnv, args := ex.prepareCall(st, &in.Call)
		return ex.invoke(st, fnv, args, &in.Call)
	case *ssa.Extract:
		t := ex.operand(st, in.Tuple)
		tv, ok := t.(*TupleV)
		if !ok {
			fail("extract from %T", t)
		}
		return tv.V[in.Index]
	case *ssa.Convert:
		return ex.convert(st, ex.operand(st, in.X), in.X.Type(), in.Type())
	case *ssa.ChangeType:
		x := ex.operand(st, in.X)
		_, a1 := ex.abstractSort(in.X.Type())
		_, a2 := ex.abstractSort(in.Type())
		if a1 != a2 {
			fail("ChangeType between abstract and concrete type %s -> %s", in.X.Type(), in.Type())
		}
		return x
	case *ssa.Slice:
		return ex.sliceOp(st, in)
	case *ssa.MakeSlice:
		return ex.makeSlice(st, in.Type(), ex.operand(st, in.Len).(*Term), ex.operand(st, in.Cap).(*Term))
	case *ssa.MakeInterface:
		return &IfaceV{T: in.X.Type(), V: ex.operand(st, in.X)}
	case *ssa.ChangeInterface:
		return ex.operand(st, in.X)
	case *ssa.TypeAssert:
		return ex.typeAssert(st, in)
	case *ssa.MakeClosure:
		fv := &FuncV{Fn: in.Fn.(*ssa.Function)}
		for _, b := range in.Bindings {
			fv.Bindings = append(fv.Bindings, ex.operand(st, b))
		}
		return fv
	case *ssa.MakeMap:
		o := ex.alloc(st, "map", in.Type(), &MapData{Ent: map[string]MapEntry{}})
		return &MapV{Obj: o}
	case *ssa.MakeChan:
		o := ex.alloc(st, "chan", in.Type(), &ChanData{})
		return &ChanV{Obj: o}
	case *ssa.Lookup:
		return ex.lookup(st, in)
	case *ssa.Range:
		return ex.rangeInit(st, in)
	case *ssa.Next:
		return ex.rangeNext(st, in)
	case *ssa.SliceToArrayPointer:
		n := in.Type().(*types.Pointer).Elem().Underlying().(*types.Array).Len()
		return ex.forAlts(ex.operand(st, in.X), func(g *Term, xv Value) Value {
			x := xv.(*SliceV)
			ex.panicObligation(st, ts.And(g, ts.Lt(x.Len, ts.Int64(n))), "slice to array pointer: length too short")
			if x.Obj == nil {
				return &PtrV{}
			}
			arr := walk(ex.objValue(st, x.Obj), x.Path).(*ArrayV)
			if x.Off.isZero() && int64(len(arr.E)) == n {
				return &PtrV{Obj: x.Obj, Path: x.Path}
			}
			return &PtrV{Obj: x.Obj, Path: x.Path, Sub: &SubArr{Off: x.Off, N: int(n)}}
		})
	}
	fail("unsupported SSA value %T (%s)", v, v)
	return nil
}

func (ex *Exec) unop(st *PState, in *ssa.UnOp) Value {
	ts := ex.ts
	x := ex.operand(st, in.X)
	switch in.Op {
	case token.MUL: // load
		return ex.load(st, x)
	case token.NOT:
		return ts.Not(x.(*Term))
	case token.SUB:
		t := x.(*Term)
		if t.sort == SReal {
			return ts.Neg(t)
		}
		ii, _ := basicIntInfo(in.Type())
		r := ex.wrap(ts.Neg(t), ii)
		ex.negOf[r.id] = t
		return r
	case token.XOR:
		ii, _ := basicIntInfo(in.Type())
		t := x.(*Term)
		if ii.signed {
			return ts.Sub(ts.Int64(-1), t)
		}
		return ts.Sub(ts.Int(ii.hi), t)
	case token.ARROW:
		return ex.chanRecv(st, x, in.CommaOk)
	}
	fail("unsupported unop %s", in.Op)
	return nil
}

func (ex *Exec) binop(st *PState, op token.Token, x, y Value, xt, yt, rt types.Type) Value {
	ts := ex.ts
	if _, ok := x.(*ChoiceV); ok {
		return ex.forAlts(x, func(g *Term, xv Value) Value { return ex.binop(st, op, xv, y, xt, yt, rt) })
	}
	if _, ok := y.(*ChoiceV); ok {
		return ex.forAlts(y, func(g *Term, yv Value) Value { return ex.binop(st, op, x, yv, xt, yt, rt) })
	}
	switch a := x.(type) {
	case *Term:
		b, ok := y.(*Term)
		if !ok {
			fail("binop term with %T", y)
		}
		if _, abs := ex.abstractSort(xt); abs {
			if op == token.EQL {
				return ts.Eq(a, b)
			}
			if op == token.NEQ {
				return ts.Not(ts.Eq(a, b))
			}
			fail("operator %s on abstract type", op)
		}
		if a.sort == SBool {
			switch op {
			case token.EQL:
				return ts.Eq(a, b)
			case token.NEQ:
				return ts.Not(ts.Eq(a, b))
			case token.AND, token.LAND:
				return ts.And(a, b)
			case token.OR, token.LOR:
				return ts.Or(a, b)
			}
			fail("bool binop %s", op)
		}
		if a.sort == SReal {
			return ex.floatBinop(op, a, b)
		}
		switch op {
		case token.EQL, token.NEQ, token.LSS, token.LEQ, token.GTR, token.GEQ:
			return ex.cmpOp(op, a, b)
		}
		return ex.intBinOp(st, op, a, b, xt, yt)
	case *StringV:
		b := y.(*StringV)
		switch op {
		case token.ADD:
			if a.Bytes == nil && b.Bytes == nil {
				return &StringV{S: a.S + b.S}
			}
			return &StringV{Bytes: append(append([]*Term{}, ex.strBytes(a)...), ex.strBytes(b)...)}
		case token.EQL, token.NEQ:
			var r *Term
			if a.Bytes == nil && b.Bytes == nil {
				r = ts.Bool(a.S == b.S)
			} else {
				ab, bb := ex.strBytes(a), ex.strBytes(b)
				if len(ab) != len(bb) {
					r = ts.Bool(false)
				} else {
					var cs []*Term
					for i := range ab {
						cs = append(cs, ts.Eq(ab[i], bb[i]))
					}
					r = ts.And(cs...)
				}
			}
			if op == token.NEQ {
				r = ts.Not(r)
			}
			return r
		case token.LSS, token.LEQ, token.GTR, token.GEQ:
			if a.Bytes == nil && b.Bytes == nil {
				switch op {
				case token.LSS:
					return ts.Bool(a.S < b.S)
				case token.LEQ:
					return ts.Bool(a.S <= b.S)
				case token.GTR:
					return ts.Bool(a.S > b.S)
				default:
					return ts.Bool(a.S >= b.S)
				}
			}
		}
		fail("string binop %s", op)
	}
	if op == token.EQL || op == token.NEQ {
		r := ex.valueEq(x, y)
		if op == token.NEQ {
			r = ts.Not(r)
		}
		return r
	}
	fail("unsupported binop %s on %T", op, x)
	return nil
}

func (ex *Exec) floatBinop(op token.Token, a, b *Term) Value {
	ts := ex.ts
	if !a.IsConst() || !b.IsConst() {
		fail("symbolic floating point arithmetic is not supported")
	}
	fa, _ := a.rval.Float64()
	fb, _ := b.rval.Float64()
	mk := func(f float64) *Term {
		r := new(big.Rat)
		if r.SetFloat64(f) == nil {
			fail("float overflow/NaN")
		}
		return ts.Real(r)
	}
	switch op {
	case token.ADD:
		return mk(fa + fb)
	case token.SUB:
		return mk(fa - fb)
	case token.MUL:
		return mk(fa * fb)
	case token.QUO:
		return mk(fa / fb)
	case token.EQL:
		return ts.Bool(fa == fb)
	case token.NEQ:
		return ts.Bool(fa != fb)
	case token.LSS:
		return ts.Bool(fa < fb)
	case token.LEQ:
		return ts.Bool(fa <= fb)
	case token.GTR:
		return ts.Bool(fa > fb)
	case token.GEQ:
		return ts.Bool(fa >= fb)
	}
	fail("float op %s", op)
	return nil
}

// valueEq: Go == on pointers, interfaces, structs, arrays, channels...
func (ex *Exec) valueEq(x, y Value) *Term {
	ts := ex.ts
	if c, ok := x.(*ChoiceV); ok {
		var parts []*Term
		for _, a := range c.Alts {
			parts = append(parts, ts.And(a.G, ex.valueEq(a.V, y)))
		}
		return ts.Or(parts...)
	}
	if _, ok := y.(*ChoiceV); ok {
		return ex.valueEq(y, x)
	}
	switch a := x.(type) {
	case *Term:
		if b, ok := y.(*Term); ok {
			return ts.Eq(a, b)
		}
	case *PtrV:
		if b, ok := y.(*PtrV); ok {
			return ts.Bool(a.Obj == b.Obj && samePath(a.Path, b.Path) && sameSub(a.Sub, b.Sub))
		}
	case *IfaceV:
		b, ok := y.(*IfaceV)
		if !ok {
			if y == nil {
				return ts.Bool(a.T == nil)
			}
			fail("iface == %T", y)
		}
		if a.T == nil || b.T == nil {
			return ts.Bool(a.T == nil && b.T == nil)
		}
		if !types.Identical(a.T, b.T) {
			return ts.Bool(false)
		}
		return ex.valueEq(a.V, b.V)
	case *VecV:
		b := y.(*VecV)
		var cs []*Term
		for i := range a.C {
			cs = append(cs, ts.Eq(a.C[i], b.C[i]))
		}
		return ts.And(cs...)
	case *StructV:
		b := y.(*StructV)
		var cs []*Term
		for i := range a.F {
			cs = append(cs, ex.valueEq(a.F[i], b.F[i]))
		}
		return ts.And(cs...)
	case *ArrayV:
		b := y.(*ArrayV)
		var cs []*Term
		for i := range a.E {
			cs = append(cs, ex.valueEq(a.E[i], b.E[i]))
		}
		return ts.And(cs...)
	case *StringV:
		return ex.binop(nil, token.EQL, x, y, nil, nil, nil).(*Term)
	case *SliceV:
		// only comparison with nil is legal
		if b, ok := y.(*SliceV); ok {
			if b.Obj == nil {
				return ts.Bool(a.Obj == nil)
			}
			if a.Obj == nil {
				return ts.Bool(b.Obj == nil)
			}
		}
	case *MapV:
		if b, ok := y.(*MapV); ok {
			return ts.Bool(a.Obj == b.Obj)
		}
	case *ChanV:
		if b, ok := y.(*ChanV); ok {
			return ts.Bool(a.Obj == b.Obj)
		}
	case *FuncV:
		if b, ok := y.(*FuncV); ok {
			if b.Fn == nil && b.Builtin == "" {
				return ts.Bool(a.Fn == nil && a.Builtin == "")
			}
			if a.Fn == nil && a.Builtin == "" {
				return ts.Bool(false)
			}
		}
	}
	fail("unsupported == between %T and %T", x, y)
	return nil
}

func (ex *Exec) convert(st *PState, x Value, from, to types.Type) Value {
	ts := ex.ts
	if c, ok := x.(*ChoiceV); ok {
		return ex.forAlts(c, func(g *Term, v Value) Value { return ex.convert(st, v, from, to) })
	}
	fi, fok := basicIntInfo(from)
	ti, tok := basicIntInfo(to)
	switch {
	case fok && tok:
		return ex.convertInt(x.(*Term), fi, ti)
	case isFloat(from) && isFloat(to):
		return x
	case fok && isFloat(to):
		t := x.(*Term)
		if !t.IsConst() {
			fail("symbolic int->float conversion")
		}
		f, _ := new(big.Float).SetInt(t.ival).Float64()
		r := new(big.Rat)
		r.SetFloat64(f)
		return ts.Real(r)
	case isFloat(from) && tok:
		t := x.(*Term)
		if !t.IsConst() {
			fail("symbolic float->int conversion")
		}
		f, _ := t.rval.Float64()
		return ex.wrap(ts.Int64(int64(f)), ti)
	case isString(from) && isString(to):
		return x
	}
	// string <-> []byte
	if isString(from) {
		if sl, ok := to.Underlying().(*types.Slice); ok {
			if b, ok := sl.Elem().Underlying().(*types.Basic); ok && b.Kind() == types.Uint8 {
				s := x.(*StringV)
				bs := ex.strBytes(s)
				arr := &ArrayV{E: make([]Value, len(bs))}
				for i := range bs {
					arr.E[i] = bs[i]
				}
				o := ex.alloc(st, "bytes(string)", types.NewArray(sl.Elem(), int64(len(bs))), arr)
				n := ts.Int64(int64(len(bs)))
				return &SliceV{Obj: o, Off: ts.Int64(0), Len: n, Cap: n}
			}
		}
	}
	if isString(to) {
		if sl, ok := from.Underlying().(*types.Slice); ok {
			if b, ok := sl.Elem().Underlying().(*types.Basic); ok && b.Kind() == types.Uint8 {
				s := x.(*SliceV)
				n, ok := s.Len.constInt()
				if !ok {
					fail("string(bytes) with symbolic length")
				}
				bs := make([]*Term, n.Int64())
				allConst := true
				for i := range bs {
					bs[i] = ex.sliceElem(st, s, ts.Int64(int64(i))).(*Term)
					if !bs[i].IsConst() {
						allConst = false
					}
				}
				if allConst {
					raw := make([]byte, len(bs))
					for i := range bs {
						raw[i] = byte(bs[i].ival.Int64())
					}
					return &StringV{S: string(raw)}
				}
				return &StringV{Bytes: bs}
			}
		}
		if fok {
			t := x.(*Term)
			if t.IsConst() {
				return &StringV{S: string(rune(t.ival.Int64()))}
			}
		}
	}
	if _, ok := to.Underlying().(*types.Pointer); ok {
		return x
	}
	if b, ok := to.Underlying().(*types.Basic); ok && b.Kind() == types.UnsafePointer {
		return x
	}
	fail("unsupported conversion %s -> %s", from, to)
	return nil
}

func (ex *Exec) typeAssert(st *PState, in *ssa.TypeAssert) Value {
	ts := ex.ts
	x := ex.operand(st, in.X)
	to := in.AssertedType
	_, toIface := to.Underlying().(*types.Interface)
	one := func(iv *IfaceV) (Value, *Term) {
		if iv.T == nil {
			return ex.zeroValue(to), ts.Bool(false)
		}
		if toIface {
			if types.Implements(iv.T, to.Underlying().(*types.Interface)) {
				return iv, ts.Bool(true)
			}
			return ex.zeroValue(to), ts.Bool(false)
		}
		if types.Identical(iv.T, to) {
			return iv.V, ts.Bool(true)
		}
		return ex.zeroValue(to), ts.Bool(false)
	}
	var val Value
	var okT *Term
	switch c := x.(type) {
	case *IfaceV:
		val, okT = one(c)
	case *ChoiceV:
		first := true
		for i := len(c.Alts) - 1; i >= 0; i-- {
			v, o := one(c.Alts[i].V.(*IfaceV))
			if first {
				val, okT = v, o
				first = false
			} else {
				if o.IsTrue() && okT.IsFalse() {
					val = v
				} else if o.IsTrue() {
					val = ex.mergeVal(c.Alts[i].G, v, val)
				}
				okT = ts.Ite(c.Alts[i].G, o, okT)
			}
		}
	default:
		fail("type assert on %T", x)
	}
	if in.CommaOk {
		return &TupleV{V: []Value{val, okT}}
	}
	ex.panicObligation(st, ts.Not(okT), "interface conversion failed")
	return val
}
