package main

import (
	"go/types"
	"math"
	"math/big"
	"strconv"
	"strings"

	"golang.org/x/tools/go/ssa"
)

func (ex *Exec) optInt(key string, def int64) int64 {
	if s, ok := ex.cfg.Opts[key]; ok {
		v, err := strconv.ParseInt(s, 10, 64)
		if err == nil {
			return v
		}
	}
	return def
}

// errorValue returns an opaque non-nil error with identity tied to key.
func (ex *Exec) errorValue(st *PState, key string) Value {
	pkg := ex.prog.ImportedPackage("errors")
	if pkg == nil {
		fail("package errors not loaded")
	}
	et := pkg.Type("errorString").Type()
	o, ok := ex.errObjs[key]
	if !ok {
		o = ex.newObject("error:"+key, et)
		ex.errObjs[key] = o
		ex.globalInit[o.ID] = &StructV{F: []Value{&StringV{S: key}}}
	}
	return &IfaceV{T: types.NewPointer(et), V: &PtrV{Obj: o}}
}

func (ex *Exec) stdStub(st *PState, fn *ssa.Function, full string, args []Value) (Value, bool) {
	ts := ex.ts
	if fn.Pkg == nil && fn.Signature.Recv() == nil {
		return nil, false
	}
	pkgPath := ""
	if fn.Pkg != nil {
		pkgPath = fn.Pkg.Pkg.Path()
	} else if o := fn.Object(); o != nil && o.Pkg() != nil {
		pkgPath = o.Pkg().Path()
	}
	switch pkgPath {
	case "math/bits":
		return ex.bitsIntrinsic(st, fn.Name(), args)
	case "sync":
		switch full {
		case "(*sync.Mutex).Lock", "(*sync.Mutex).Unlock", "(*sync.RWMutex).Lock", "(*sync.RWMutex).Unlock",
			"(*sync.RWMutex).RLock", "(*sync.RWMutex).RUnlock", "(*sync.WaitGroup).Add", "(*sync.WaitGroup).Done",
			"(*sync.WaitGroup).Wait", "(*sync.Pool).Put":
			return nil, true
		case "(*sync.Mutex).TryLock":
			return ts.Bool(true), true
		case "(*sync.Pool).Get":
			p := args[0].(*PtrV)
			pool := ex.load(st, p).(*StructV)
			// field New is the last field
			newf := pool.F[len(pool.F)-1]
			if fv, ok := newf.(*FuncV); ok && fv.Fn != nil {
				return ex.callStatic(st, fv.Fn, nil, fv.Bindings), true
			}
			return &IfaceV{}, true
		}
	case "sync/atomic":
		name := fn.Name()
		if fn.Signature.Recv() != nil {
			break // typed wrappers (atomic.Uint32 etc.) are inlined down to the plain functions
		}
		switch {
		case strings.HasPrefix(name, "Load"):
			return ex.load(st, args[0]), true
		case strings.HasPrefix(name, "Store"):
			ex.store(st, args[0], args[1])
			return nil, true
		case strings.HasPrefix(name, "Add"):
			old := ex.load(st, args[0]).(*Term)
			rt := fn.Signature.Results().At(0).Type()
			ii, _ := basicIntInfo(rt)
			nv := ex.wrap(ts.Add(old, args[1].(*Term)), ii)
			ex.store(st, args[0], nv)
			return nv, true
		case strings.HasPrefix(name, "Swap"):
			old := ex.load(st, args[0])
			ex.store(st, args[0], args[1])
			return old, true
		case strings.HasPrefix(name, "CompareAndSwap"):
			old := ex.load(st, args[0])
			eq := ex.valueEq(old, args[1])
			ex.store(st, args[0], ex.mergeVal(eq, args[2], old))
			return eq, true
		}
	case "reflect":
		// the fragment used to validate "pointer to a settable value" arguments
		switch full {
		case "reflect.ValueOf":
			iv, _ := args[0].(*IfaceV)
			return &ReflectV{I: iv}, true
		case "(reflect.Value).Kind":
			rv := args[0].(*ReflectV)
			if rv.Elem {
				fail("reflect.Value.Kind of a dereferenced value is not modelled")
			}
			if rv.I == nil || rv.I.T == nil {
				return ts.Int64(0), true // reflect.Invalid
			}
			switch rv.I.T.Underlying().(type) {
			case *types.Pointer:
				return ts.Int64(22), true // reflect.Ptr
			case *types.Slice:
				return ts.Int64(23), true
			case *types.Struct:
				return ts.Int64(25), true
			}
			return ts.Int64(1), true // some non-pointer kind (Bool): only compared with Ptr
		case "(reflect.Value).IsNil":
			rv := args[0].(*ReflectV)
			if pv, ok := rv.I.V.(*PtrV); ok {
				return ts.Bool(pv.Obj == nil), true
			}
			fail("reflect.Value.IsNil on %T", rv.I.V)
		case "(reflect.Value).Elem":
			rv := args[0].(*ReflectV)
			return &ReflectV{I: rv.I, Elem: true}, true
		case "(reflect.Value).CanSet":
			rv := args[0].(*ReflectV)
			return ts.Bool(rv.Elem), true
		}
	case "runtime":
		switch fn.Name() {
		case "NumCPU", "GOMAXPROCS":
			return ts.Int64(ex.optInt("numcpu", 4)), true
		case "KeepAlive", "Gosched", "GC":
			return nil, true
		}
	case "fmt":
		switch fn.Name() {
		case "Errorf":
			key := "fmt.Errorf@" + ex.pos()
			if s, ok := args[0].(*StringV); ok && s.Bytes == nil {
				key = "fmt.Errorf:" + s.S
			}
			return ex.errorValue(st, key), true
		case "Sprintf", "Sprint", "Sprintln":
			return &StringV{S: "<fmt>"}, true
		case "Println", "Printf", "Print", "Fprintf", "Fprintln", "Fprint":
			return &TupleV{V: []Value{ts.Int64(0), &IfaceV{}}}, true
		}
	case "errors":
		switch fn.Name() {
		case "New":
			key := "errors.New@" + ex.pos()
			if s, ok := args[0].(*StringV); ok && s.Bytes == nil {
				key = "errors.New:" + s.S + "@" + ex.pos()
			}
			return ex.errorValue(st, key), true
		case "Is":
			return ex.valueEq(args[0], args[1]), true
		case "Join":
			return ex.errorValue(st, "errors.Join@"+ex.pos()), true
		}
	case "bytes":
		switch fn.Name() {
		case "Equal":
			a, b := args[0].(*SliceV), args[1].(*SliceV)
			na, ok1 := a.Len.constInt()
			nb, ok2 := b.Len.constInt()
			if ok1 && ok2 {
				if na.Cmp(nb) != 0 {
					return ts.Bool(false), true
				}
				var cs []*Term
				for i := int64(0); i < na.Int64(); i++ {
					cs = append(cs, ts.Eq(ex.sliceElem(st, a, ts.Int64(i)).(*Term), ex.sliceElem(st, b, ts.Int64(i)).(*Term)))
				}
				return ts.And(cs...), true
			}
			// symbolic lengths (bounded)
			if a.Len.hi == nil || !a.Len.hi.IsInt64() {
				fail("bytes.Equal with unbounded length")
			}
			var cs []*Term
			cs = append(cs, ts.Eq(a.Len, b.Len))
			for i := int64(0); i < a.Len.hi.Int64(); i++ {
				it := ts.Int64(i)
				in := ts.Lt(it, a.Len)
				if in.IsFalse() {
					break
				}
				cs = append(cs, ts.Implies(in, ts.Eq(ex.sliceElemGuarded(st, a, it).(*Term), ex.sliceElemGuarded(st, b, it).(*Term))))
			}
			return ts.And(cs...), true
		}
	case "math":
		switch fn.Name() {
		case "Ceil", "Floor", "Sqrt", "Log", "Log2", "Abs":
			t, ok := args[0].(*Term)
			if !ok || !t.IsConst() {
				fail("math.%s of a symbolic float", fn.Name())
			}
			f, _ := t.rval.Float64()
			var r float64
			switch fn.Name() {
			case "Ceil":
				r = math.Ceil(f)
			case "Floor":
				r = math.Floor(f)
			case "Sqrt":
				r = math.Sqrt(f)
			case "Log":
				r = math.Log(f)
			case "Log2":
				r = math.Log2(f)
			case "Abs":
				r = math.Abs(f)
			}
			rr := new(big.Rat)
			if rr.SetFloat64(r) == nil {
				fail("math.%s result not finite", fn.Name())
			}
			return ts.Real(rr), true
		}
	case "os":
		if fn.Name() == "Getenv" {
			return &StringV{}, true
		}
	case "time":
		fail("call into package time (%s) is not modelled", full)
	}
	return nil, false
}

// ---------- abstract (summarised) types ----------

func (ex *Exec) recvAbstract(fn *ssa.Function) (Sort, bool) {
	sig := fn.Signature
	if sig.Recv() == nil {
		return 0, false
	}
	rt := sig.Recv().Type()
	if p, ok := rt.(*types.Pointer); ok {
		rt = p.Elem()
	}
	return ex.abstractSort(rt)
}

func (ex *Exec) ldT(st *PState, p Value) *Term {
	v := ex.load(st, p)
	t, ok := v.(*Term)
	if !ok && st.g.IsFalse() {
		return ex.ts.Int64(0) // dead state (the access itself was a panic obligation)
	}
	if !ok {
		fail("abstract operand is %T", v)
	}
	return t
}

func (ex *Exec) abstractCall(st *PState, fn *ssa.Function, full string, args []Value) (Value, bool) {
	if fn.Signature.Recv() != nil && ex.vecDim(fn.Signature.Recv().Type()) > 0 {
		if v, ok := ex.vecMethod(st, fn, args); ok {
			return v, true
		}
		return nil, false // not summarised: inline (must be built from summarised operations)
	}
	s, ok := ex.recvAbstract(fn)
	if !ok {
		return ex.abstractFunc(st, fn, full, args)
	}
	if s == SReal {
		return ex.realMethod(st, fn, args), true
	}
	rt := fn.Signature.Recv().Type()
	if ex.isFelt(rt) {
		switch fn.Name() {
		case "MulByNonResidue", "MulByNonResidueInv":
			// small helper methods written in terms of the summarised operations: inline them
			if fn.Blocks != nil {
				return nil, false
			}
		}
		return ex.feltMethod(st, fn, args), true
	}
	if ex.absKindPtr(rt) == "xexp" {
		return ex.xexpMethod(st, fn, args)
	}
	return ex.bigMethod(st, fn, args), true
}

func (ex *Exec) abstractFunc(st *PState, fn *ssa.Function, full string, args []Value) (Value, bool) {
	ts := ex.ts
	if len(ex.cfg.Abstract) > 0 {
		if v, ok := ex.feltPkgFunc(st, fn, full, args); ok {
			return v, true
		}
	}
	// package-level helpers of a field package acting on an abstracted (real) element
	if fn.Signature.Recv() == nil && fn.Signature.Params().Len() >= 1 {
		if pt, ok := fn.Signature.Params().At(0).Type().(*types.Pointer); ok {
			if srt, isAbs := ex.abstractSort(pt.Elem()); isAbs && srt == SReal {
				rc := func(n int64) *Term { return ts.Real(big.NewRat(n, 1)) }
				switch fn.Name() {
				case "MulBy3":
					ex.store(st, args[0], ts.Mul(rc(3), ex.ldT(st, args[0])))
					return nil, true
				case "MulBy5":
					ex.store(st, args[0], ts.Mul(rc(5), ex.ldT(st, args[0])))
					return nil, true
				case "MulBy13":
					ex.store(st, args[0], ts.Mul(rc(13), ex.ldT(st, args[0])))
					return nil, true
				case "Butterfly":
					a, b := ex.ldT(st, args[0]), ex.ldT(st, args[1])
					ex.store(st, args[0], ts.Add(a, b))
					ex.store(st, args[1], ts.Sub(a, b))
					return nil, true
				}
			}
		}
	}
	// package-level helpers on a felt-abstracted element
	if fn.Signature.Recv() == nil && fn.Signature.Params().Len() >= 1 {
		if pt, ok := fn.Signature.Params().At(0).Type().(*types.Pointer); ok && ex.absKind(pt.Elem()) == "felt" {
			q := ex.feltModulus(pt.Elem())
			switch fn.Name() {
			case "MulBy3", "MulBy5", "MulBy13":
				k := map[string]int64{"MulBy3": 3, "MulBy5": 5, "MulBy13": 13}[fn.Name()]
				ex.store(st, args[0], ex.modQ(ts.Mul(ts.Int64(k), ex.ldT(st, args[0])), q))
				return nil, true
			case "Butterfly":
				a, b := ex.ldT(st, args[0]), ex.ldT(st, args[1])
				ex.store(st, args[0], ex.modQ(ts.Add(a, b), q))
				ex.store(st, args[1], ex.modQ(ts.Sub(a, b), q))
				return nil, true
			}
		}
	}
	if full == "math/big.NewInt" {
		if _, ok := ex.abstractSort(fn.Signature.Results().At(0).Type().(*types.Pointer).Elem()); ok {
			o := ex.alloc(st, "big.NewInt", fn.Signature.Results().At(0).Type().(*types.Pointer).Elem(), args[0])
			return &PtrV{Obj: o}, true
		}
	}
	_ = ts
	return nil, false
}

// realMethod: receiver type abstracted as a field/ring element (Real).
func (ex *Exec) realMethod(st *PState, fn *ssa.Function, args []Value) Value {
	ts := ex.ts
	name := fn.Name()
	recv := args[0]
	_, ptrRecv := fn.Signature.Recv().Type().(*types.Pointer)
	L := func(i int) *Term {
		if i == 0 && !ptrRecv {
			return args[0].(*Term)
		}
		return ex.ldT(st, args[i])
	}
	set := func(v *Term) Value {
		ex.store(st, recv, v)
		return recv
	}
	rc := func(n int64) *Term { return ts.Real(big.NewRat(n, 1)) }
	b01 := func(c *Term) *Term { return ts.Ite(c, ts.Int64(1), ts.Int64(0)) }
	switch name {
	case "Set":
		return set(L(1))
	case "SetZero":
		return set(rc(0))
	case "SetOne":
		return set(rc(1))
	case "Add":
		return set(ts.Add(L(1), L(2)))
	case "Sub":
		return set(ts.Sub(L(1), L(2)))
	case "Mul":
		return set(ts.Mul(L(1), L(2)))
	case "Square":
		x := L(1)
		return set(ts.Mul(x, x))
	case "Neg":
		return set(ts.Neg(L(1)))
	case "Double":
		return set(ts.Mul(rc(2), L(1)))
	case "Halve":
		if len(args) == 1 {
			return set(ts.Mul(ts.Real(big.NewRat(1, 2)), L(0)))
		}
		return set(ts.Mul(ts.Real(big.NewRat(1, 2)), L(1)))
	case "Inverse":
		x := L(1)
		return set(ts.Ite(ts.Eq(x, rc(0)), rc(0), ts.RDiv(rc(1), x)))
	case "Div":
		x, y := L(1), L(2)
		return set(ts.Ite(ts.Eq(y, rc(0)), rc(0), ts.RDiv(x, y)))
	case "IsZero":
		return ts.Eq(L(0), rc(0))
	case "IsOne":
		return ts.Eq(L(0), rc(1))
	case "Equal":
		return ts.Eq(L(0), L(1))
	case "NotEqual":
		return b01(ts.Not(ts.Eq(L(0), L(1))))
	case "SetUint64", "SetInt64":
		t := args[1].(*Term)
		return set(ts.ToReal(t))
	case "Select":
		c := args[1].(*Term)
		return set(ts.Ite(ts.Eq(c, ts.Int64(0)), L(2), L(3)))
	case "SetString":
		str := constString(args[1])
		v, ok := new(big.Int).SetString(str, 0)
		if !ok {
			return &TupleV{V: []Value{&PtrV{}, ex.errorValue(st, "Element.SetString failed")}}
		}
		return &TupleV{V: []Value{set(ts.Real(new(big.Rat).SetInt(v))), &IfaceV{}}}
	case "SetBigInt":
		t := ex.ldT(st, args[1])
		if t.op == "uf:real2int" {
			// the integer is the image of an abstract element under BigInt: recover the element
			return set(t.args[0])
		}
		return set(ts.ToReal(t))
	case "BigInt":
		// the canonical integer of an abstract element is an opaque injective image of it (only
		// SetBigInt can consume it)
		x := L(0)
		var it *Term
		if x.IsConst() && x.rval != nil && x.rval.IsInt() && x.rval.Sign() >= 0 {
			it = ts.Int(new(big.Int).Set(x.rval.Num()))
		} else {
			it = ts.App(ts.DeclareUF("real2int", []Sort{SReal}, SInt, nil, nil), x)
		}
		ex.store(st, args[1], it)
		return args[1]
	case "MulBy3":
		return set(ts.Mul(rc(3), L(0)))
	case "MulBy5":
		return set(ts.Mul(rc(5), L(0)))
	case "MulBy13":
		return set(ts.Mul(rc(13), L(0)))
	}
	if v, ok := ex.realMethodExtra(st, fn, args); ok {
		return v
	}
	fail("no summary for method %s on abstracted type", fn.String())
	return nil
}

func (ex *Exec) absKindPtr(t types.Type) string {
	if p, ok := t.(*types.Pointer); ok {
		t = p.Elem()
	}
	return ex.absKind(t)
}

// xexpMethod: interpretation X. An element of a multiplicative group generated from one atom g is
// represented by its exponent e (value g^e): Mul adds, Square doubles, Inverse negates. Methods
// without a summary are inlined (they must be built from the summarised ones).
func (ex *Exec) xexpMethod(st *PState, fn *ssa.Function, args []Value) (Value, bool) {
	ts := ex.ts
	recv := args[0]
	L := func(i int) *Term { return ex.ldT(st, args[i]) }
	set := func(v *Term) Value {
		ex.store(st, recv, v)
		return recv
	}
	switch fn.Name() {
	case "Set":
		return set(L(1)), true
	case "SetOne":
		return set(ts.Int64(0)), true
	case "Mul":
		return set(ts.Add(L(1), L(2))), true
	case "Square":
		return set(ts.Mul(ts.Int64(2), L(1))), true
	case "Inverse":
		return set(ts.Neg(L(1))), true
	case "Equal":
		return ts.Eq(L(0), L(1)), true
	case "Conjugate", "InverseUnitary":
		// on the cyclotomic subgroup conjugation is inversion
		return set(ts.Neg(L(1))), true
	case "CyclotomicSquare":
		return set(ts.Mul(ts.Int64(2), L(1))), true
	}
	return nil, false
}
