package main

// "vecN" interpretation (layer G, free module): a group element is the integer coefficient vector
// of its expression over N formal generators. Point additions add vectors, doublings double,
// negation negates. The point at infinity is the zero vector.

import (
	"go/types"
	"strings"

	"golang.org/x/tools/go/ssa"
)

type VecV struct{ C []*Term }

func (ex *Exec) vecDim(t types.Type) int {
	if p, ok := t.(*types.Pointer); ok {
		t = p.Elem()
	}
	k := ex.absKind(t)
	if strings.HasPrefix(k, "vec") {
		switch k {
		case "vec1":
			return 1
		case "vec2":
			return 2
		case "vec3":
			return 3
		case "vec4":
			return 4
		}
	}
	return 0
}

func (ex *Exec) vecZero(n int) *VecV {
	v := &VecV{C: make([]*Term, n)}
	for i := range v.C {
		v.C[i] = ex.ts.Int64(0)
	}
	return v
}

func (ex *Exec) ldV(st *PState, p Value) *VecV {
	v := ex.load(st, p)
	vv, ok := v.(*VecV)
	if !ok {
		if st.g.IsFalse() {
			return ex.vecZero(1)
		}
		fail("module-element operand is %T", v)
	}
	return vv
}

func (ex *Exec) vecLin(a *VecV, ca int64, b *VecV, cb int64) *VecV {
	ts := ex.ts
	r := &VecV{C: make([]*Term, len(a.C))}
	for i := range r.C {
		x := ts.Mul(ts.Int64(ca), a.C[i])
		if b != nil {
			x = ts.Add(x, ts.Mul(ts.Int64(cb), b.C[i]))
		}
		r.C[i] = x
	}
	return r
}

func (ex *Exec) vecIsZero(a *VecV) *Term {
	ts := ex.ts
	var cs []*Term
	for _, c := range a.C {
		cs = append(cs, ts.Eq(c, ts.Int64(0)))
	}
	return ts.And(cs...)
}

func (ex *Exec) vecMethod(st *PState, fn *ssa.Function, args []Value) (Value, bool) {
	recv := args[0]
	_, ptrRecv := fn.Signature.Recv().Type().(*types.Pointer)
	L := func(i int) *VecV {
		if i == 0 && !ptrRecv {
			return args[0].(*VecV)
		}
		return ex.ldV(st, args[i])
	}
	set := func(v *VecV) Value {
		ex.store(st, recv, v)
		return recv
	}
	switch fn.Name() {
	case "Set", "FromAffine", "FromJacobian", "fromJacExtended", "unsafeFromJacExtended":
		return set(L(1)), true
	case "SetInfinity", "setInfinity":
		return set(ex.vecZero(len(L(0).C))), true
	case "Neg":
		return set(ex.vecLin(L(1), -1, nil, 0)), true
	case "AddAssign", "AddMixed", "add", "addMixed":
		return set(ex.vecLin(L(0), 1, L(1), 1)), true
	case "SubAssign", "subMixed":
		return set(ex.vecLin(L(0), 1, L(1), -1)), true
	case "Add":
		return set(ex.vecLin(L(1), 1, L(2), 1)), true
	case "Sub":
		return set(ex.vecLin(L(1), 1, L(2), -1)), true
	case "Double", "double", "DoubleMixed", "doubleMixed":
		return set(ex.vecLin(L(1), 2, nil, 0)), true
	case "doubleNegMixed":
		return set(ex.vecLin(L(1), -2, nil, 0)), true
	case "DoubleAssign":
		return set(ex.vecLin(L(0), 2, nil, 0)), true
	case "Equal":
		a, b := L(0), L(1)
		var cs []*Term
		for i := range a.C {
			cs = append(cs, ex.ts.Eq(a.C[i], b.C[i]))
		}
		return ex.ts.And(cs...), true
	case "phi":
		// the endomorphism satisfies phi^2 + phi + 1 = 0: over generators (Q, phi Q),
		// phi(a*Q + b*phiQ) = -b*Q + (a-b)*phiQ
		v := L(1)
		if len(v.C) != 2 {
			fail("phi on a module of dimension %d", len(v.C))
		}
		ts := ex.ts
		return set(&VecV{C: []*Term{ts.Neg(v.C[1]), ts.Sub(v.C[0], v.C[1])}}), true
	case "IsInfinity":
		return ex.vecIsZero(L(0)), true
	}
	return nil, false
}
