package main

// "vecN" interpretation (layer G, free module): a group element is the integer coefficient vector
// of its expression over N formal generators. Point additions add vectors, doublings double,
// negation negates. The point at infinity is the zero vector.

import (
	"go/types"
	"math/big"
	"strconv"
	"strings"

	"golang.org/x/tools/go/ssa"
)

type VecV struct{ C []*Term }

func (ex *Exec) vecDim(t types.Type) int {
	if p, ok := t.(*types.Pointer); ok {
		t = p.Elem()
	}
	k := ex.absKind(t)
	if strings.HasPrefix(k, "cyc") {
		if d, err := strconv.Atoi(k[3:]); err == nil && d > 0 {
			return d
		}
	}
	if strings.HasPrefix(k, "vec") {
		switch k {
		case "vec1":
			return 1
		case "vec2":
			return 2
		case "vec3":
			return 3
		case "vec4":
			return 4
		}
	}
	return 0
}

func (ex *Exec) vecZero(n int) *VecV {
	v := &VecV{C: make([]*Term, n)}
	for i := range v.C {
		v.C[i] = ex.ts.Int64(0)
	}
	return v
}

func (ex *Exec) ldV(st *PState, p Value) *VecV {
	v := ex.load(st, p)
	vv, ok := v.(*VecV)
	if !ok {
		if st.g.IsFalse() {
			return ex.vecZero(1)
		}
		fail("module-element operand is %T", v)
	}
	return vv
}

func (ex *Exec) vecLin(a *VecV, ca int64, b *VecV, cb int64) *VecV {
	ts := ex.ts
	r := &VecV{C: make([]*Term, len(a.C))}
	for i := range r.C {
		x := ts.Mul(ts.Int64(ca), a.C[i])
		if b != nil {
			x = ts.Add(x, ts.Mul(ts.Int64(cb), b.C[i]))
		}
		r.C[i] = x
	}
	return r
}

func (ex *Exec) vecIsZero(a *VecV) *Term {
	ts := ex.ts
	var cs []*Term
	for _, c := range a.C {
		cs = append(cs, ts.Eq(c, ts.Int64(0)))
	}
	return ts.And(cs...)
}

func (ex *Exec) vecMethod(st *PState, fn *ssa.Function, args []Value) (Value, bool) {
	if ex.isCyc(fn.Signature.Recv().Type()) {
		return ex.cycMethod(st, fn, args)
	}
	recv := args[0]
	_, ptrRecv := fn.Signature.Recv().Type().(*types.Pointer)
	L := func(i int) *VecV {
		if i == 0 && !ptrRecv {
			return args[0].(*VecV)
		}
		return ex.ldV(st, args[i])
	}
	set := func(v *VecV) Value {
		ex.store(st, recv, v)
		return recv
	}
	switch fn.Name() {
	case "Set", "FromAffine", "FromJacobian", "fromJacExtended", "unsafeFromJacExtended":
		return set(L(1)), true
	case "SetInfinity", "setInfinity":
		return set(ex.vecZero(len(L(0).C))), true
	case "Neg":
		return set(ex.vecLin(L(1), -1, nil, 0)), true
	case "AddAssign", "AddMixed", "add", "addMixed":
		return set(ex.vecLin(L(0), 1, L(1), 1)), true
	case "SubAssign", "subMixed":
		return set(ex.vecLin(L(0), 1, L(1), -1)), true
	case "Add":
		return set(ex.vecLin(L(1), 1, L(2), 1)), true
	case "Sub":
		return set(ex.vecLin(L(1), 1, L(2), -1)), true
	case "Double", "double", "DoubleMixed", "doubleMixed":
		return set(ex.vecLin(L(1), 2, nil, 0)), true
	case "doubleNegMixed":
		return set(ex.vecLin(L(1), -2, nil, 0)), true
	case "DoubleAssign":
		return set(ex.vecLin(L(0), 2, nil, 0)), true
	case "Equal":
		a, b := L(0), L(1)
		var cs []*Term
		for i := range a.C {
			cs = append(cs, ex.ts.Eq(a.C[i], b.C[i]))
		}
		return ex.ts.And(cs...), true
	case "phi":
		// the endomorphism satisfies phi^2 + phi + 1 = 0: over generators (Q, phi Q),
		// phi(a*Q + b*phiQ) = -b*Q + (a-b)*phiQ
		v := L(1)
		if len(v.C) != 2 {
			fail("phi on a module of dimension %d", len(v.C))
		}
		ts := ex.ts
		return set(&VecV{C: []*Term{ts.Neg(v.C[1]), ts.Sub(v.C[0], v.C[1])}}), true
	case "IsInfinity":
		return ex.vecIsZero(L(0)), true
	}
	return nil, false
}

// ---------- "cycD" interpretation: the ring Q(params)[w]/(w^D + 1) ----------
//
// A field element is the coefficient vector (c_0..c_{D-1}), real terms, of c_0 + c_1 w + ... with w a
// formal primitive 2D-th root of unity (w^D = -1). Identities proved here hold in every field with
// a primitive 2D-th root of unity (image of the ring under w -> that root), for all values of the
// scalar unknowns.

func (ex *Exec) isCyc(t types.Type) bool {
	if p, ok := t.(*types.Pointer); ok {
		t = p.Elem()
	}
	return strings.HasPrefix(ex.absKind(t), "cyc")
}

func (ex *Exec) cycZero(n int) *VecV {
	v := &VecV{C: make([]*Term, n)}
	z := ex.ts.Real(new(big.Rat))
	for i := range v.C {
		v.C[i] = z
	}
	return v
}

func (ex *Exec) cycScalar(n int, c *Term) *VecV {
	v := ex.cycZero(n)
	v.C[0] = c
	return v
}

// cycRoot returns w^k.
func (ex *Exec) cycRoot(n int, k int64) *VecV {
	k = ((k % int64(2*n)) + int64(2*n)) % int64(2*n)
	v := ex.cycZero(n)
	if k >= int64(n) {
		v.C[k-int64(n)] = ex.ts.Real(big.NewRat(-1, 1))
	} else {
		v.C[k] = ex.ts.Real(big.NewRat(1, 1))
	}
	return v
}

func (ex *Exec) cycMul(a, b *VecV) *VecV {
	ts := ex.ts
	n := len(a.C)
	r := ex.cycZero(n)
	for i := 0; i < n; i++ {
		if a.C[i].isZero() {
			continue
		}
		for j := 0; j < n; j++ {
			if b.C[j].isZero() {
				continue
			}
			p := ts.Mul(a.C[i], b.C[j])
			k := i + j
			if k >= n {
				r.C[k-n] = ts.Sub(r.C[k-n], p)
			} else {
				r.C[k] = ts.Add(r.C[k], p)
			}
		}
	}
	return r
}

func (ex *Exec) cycLin(a *VecV, ca int64, b *VecV, cb int64) *VecV {
	ts := ex.ts
	r := &VecV{C: make([]*Term, len(a.C))}
	for i := range r.C {
		x := ts.Mul(ts.Real(big.NewRat(ca, 1)), a.C[i])
		if b != nil {
			x = ts.Add(x, ts.Mul(ts.Real(big.NewRat(cb, 1)), b.C[i]))
		}
		r.C[i] = x
	}
	return r
}

func (ex *Exec) cycInverse(a *VecV) *VecV {
	ts := ex.ts
	n := len(a.C)
	idx := -1
	for i, c := range a.C {
		if !c.isZero() {
			if idx >= 0 {
				fail("inverse of a non-monomial ring element (only c*w^k can be inverted in this interpretation)")
			}
			idx = i
		}
	}
	if idx < 0 {
		return ex.cycZero(n)
	}
	c := a.C[idx]
	z := ts.Real(new(big.Rat))
	inv := ts.Ite(ts.Eq(c, z), z, ts.RDiv(ts.Real(big.NewRat(1, 1)), c))
	r := ex.cycZero(n)
	if idx == 0 {
		r.C[0] = inv
	} else {
		// (c w^k)^-1 = c^-1 w^-k = -c^-1 w^(D-k)
		r.C[n-idx] = ts.Neg(inv)
	}
	return r
}

func (ex *Exec) cycMethod(st *PState, fn *ssa.Function, args []Value) (Value, bool) {
	ts := ex.ts
	recv := args[0]
	_, ptrRecv := fn.Signature.Recv().Type().(*types.Pointer)
	n := ex.vecDim(fn.Signature.Recv().Type())
	L := func(i int) *VecV {
		if i == 0 && !ptrRecv {
			return args[0].(*VecV)
		}
		return ex.ldV(st, args[i])
	}
	set := func(v *VecV) Value {
		ex.store(st, recv, v)
		return recv
	}
	rc := func(k int64) *Term { return ts.Real(big.NewRat(k, 1)) }
	eq := func(a, b *VecV) *Term {
		var cs []*Term
		for i := range a.C {
			cs = append(cs, ts.Eq(a.C[i], b.C[i]))
		}
		return ts.And(cs...)
	}
	switch fn.Name() {
	case "Set", "FromAffine", "FromJacobian":
		return set(L(1)), true
	case "AddAssign", "AddMixed":
		return set(ex.cycLin(L(0), 1, L(1), 1)), true
	case "SubAssign":
		return set(ex.cycLin(L(0), 1, L(1), -1)), true
	case "SetZero", "SetInfinity", "setInfinity":
		return set(ex.cycZero(n)), true
	case "IsInfinity":
		return eq(L(0), ex.cycZero(n)), true
	case "SetOne":
		return set(ex.cycScalar(n, rc(1))), true
	case "SetUint64", "SetInt64":
		return set(ex.cycScalar(n, ts.ToReal(args[1].(*Term)))), true
	case "Add":
		return set(ex.cycLin(L(1), 1, L(2), 1)), true
	case "Sub":
		return set(ex.cycLin(L(1), 1, L(2), -1)), true
	case "Neg":
		return set(ex.cycLin(L(1), -1, nil, 0)), true
	case "Double":
		return set(ex.cycLin(L(1), 2, nil, 0)), true
	case "Mul":
		return set(ex.cycMul(L(1), L(2))), true
	case "Square":
		x := L(1)
		return set(ex.cycMul(x, x)), true
	case "Inverse":
		return set(ex.cycInverse(L(1))), true
	case "Div":
		return set(ex.cycMul(L(1), ex.cycInverse(L(2)))), true
	case "Exp":
		// Exp(x Element, k *big.Int) with a concrete exponent
		x := args[1].(*VecV)
		k := ex.ldT(st, args[2])
		if !k.IsConst() {
			fail("ring element raised to a symbolic exponent")
		}
		e := new(big.Int).Set(k.ival)
		base := x
		if e.Sign() < 0 {
			base = ex.cycInverse(x)
			e.Neg(e)
		}
		r := ex.cycScalar(n, rc(1))
		for i := e.BitLen() - 1; i >= 0; i-- {
			r = ex.cycMul(r, r)
			if e.Bit(i) == 1 {
				r = ex.cycMul(r, base)
			}
		}
		return set(r), true
	case "Equal":
		return eq(L(0), L(1)), true
	case "IsZero":
		return eq(L(0), ex.cycZero(n)), true
	case "IsOne":
		return eq(L(0), ex.cycScalar(n, rc(1))), true
	}
	return nil, false
}
