package main

// Runtime value representation of the symbolic executor.

import (
	"fmt"
	"go/types"
	"sort"

	"golang.org/x/tools/go/ssa"
)

type Value interface{}

// *Term: bool / integer / abstract leaf

type StructV struct{ F []Value }
type ArrayV struct{ E []Value }
type TupleV struct{ V []Value }

// PtrV: pointer to a sub-location of a heap object. Obj==nil means nil pointer.
type PtrV struct {
	Obj  *Object
	Path []int
	Limb int     // >0: pointer to limb Limb-1 of an abstracted element (only zero-initialisation is supported)
	Sub  *SubArr // non-nil: pointer to the N-element sub-array starting at element Off of the array at Path
}

type SubArr struct {
	Off *Term
	N   int
}

func sameSub(a, b *SubArr) bool {
	if a == nil || b == nil {
		return a == nil && b == nil
	}
	return a.Off == b.Off && a.N == b.N
}

// SliceV: window into an ArrayV located at (Obj, Path). Obj==nil means nil slice.
type SliceV struct {
	Obj  *Object
	Path []int
	Off  *Term
	Len  *Term
	Cap  *Term
}

// StringV: concrete string, or sequence of symbolic bytes of concrete length.
type StringV struct {
	S     string
	Bytes []*Term // non-nil => symbolic content
}

type IfaceV struct {
	T types.Type // nil => nil interface
	V Value
}

type FuncV struct {
	Fn       *ssa.Function
	Bindings []Value
	Builtin  string
	Recv     Value // bound method receiver (for method values through MakeClosure wrappers not needed)
}

type MapV struct{ Obj *Object } // reference to a heap map object; Obj==nil is nil map
type ChanV struct{ Obj *Object }

// MapData is the content of a map object.
type MapData struct {
	Keys []string // insertion order, canonical key strings
	Ent  map[string]MapEntry
}
type MapEntry struct {
	Key     Value
	Present *Term
	Val     Value
}

type ChanData struct {
	Q      []Value
	Closed bool
}

// ChoiceV: guarded alternatives of non-term values (pointers, slices, interfaces...).
// Guards are mutually exclusive and exhaustive under the path guard.
type ChoiceV struct {
	Alts []Alt
}
type Alt struct {
	G *Term
	V Value
}

// Opaque: value of an unsupported kind (floats etc.); using it is an error.
type Opaque struct{ Why string }

type Object struct {
	ID       int
	Name     string
	Type     types.Type
	ReadOnly bool
	Global   bool
}

func (o *Object) String() string { return fmt.Sprintf("obj%d(%s)", o.ID, o.Name) }

// Heap maps object id to its current content. Copy-on-write at the map level.
type Heap struct {
	m      map[int]Value
	shared bool
}

func NewHeap() *Heap { return &Heap{m: map[int]Value{}} }

func (h *Heap) Clone() *Heap {
	n := &Heap{m: make(map[int]Value, len(h.m)+8)}
	for k, v := range h.m {
		n.m[k] = v
	}
	return n
}

func (h *Heap) Get(o *Object) (Value, bool) {
	v, ok := h.m[o.ID]
	return v, ok
}
func (h *Heap) Set(o *Object, v Value) { h.m[o.ID] = v }

func (h *Heap) ids() []int {
	var ids []int
	for k := range h.m {
		ids = append(ids, k)
	}
	sort.Ints(ids)
	return ids
}

func samePath(a, b []int) bool {
	if len(a) != len(b) {
		return false
	}
	for i := range a {
		if a[i] != b[i] {
			return false
		}
	}
	return true
}

func appendPath(p []int, i int) []int {
	n := make([]int, len(p)+1)
	copy(n, p)
	n[len(p)] = i
	return n
}
