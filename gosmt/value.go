package main

// Runtime value representation of the symbolic executor.

import (
	"fmt"
	"go/types"

	"golang.org/x/tools/go/ssa"
)

type Value interface{}

// *Term: bool / integer / abstract leaf

type StructV struct{ F []Value }
type ArrayV struct{ E []Value }
type TupleV struct{ V []Value }

// PtrV: pointer to a sub-location of a heap object. Obj==nil means nil pointer.
type PtrV struct {
	Obj  *Object
	Path []int
	Limb int     // >0: pointer to limb Limb-1 of an abstracted element (only zero-initialisation is supported)
	Sub  *SubArr // non-nil: pointer to the N-element sub-array starting at element Off of the array at Path
}

type SubArr struct {
	Off *Term
	N   int
}

func sameSub(a, b *SubArr) bool {
	if a == nil || b == nil {
		return a == nil && b == nil
	}
	return a.Off == b.Off && a.N == b.N
}

// SliceV: window into an ArrayV located at (Obj, Path). Obj==nil means nil slice.
type SliceV struct {
	Obj  *Object
	Path []int
	Off  *Term
	Len  *Term
	Cap  *Term
}

// StringV: concrete string, or sequence of symbolic bytes of concrete length.
type StringV struct {
	S     string
	Bytes []*Term // non-nil => symbolic content
}

type IfaceV struct {
	T types.Type // nil => nil interface
	V Value
}

type FuncV struct {
	Fn       *ssa.Function
	Bindings []Value
	Builtin  string
	Recv     Value // bound method receiver (for method values through MakeClosure wrappers not needed)
}

type MapV struct{ Obj *Object } // reference to a heap map object; Obj==nil is nil map
type ChanV struct{ Obj *Object }

// MapData is the content of a map object.
type MapData struct {
	Keys []string // insertion order, canonical key strings
	Ent  map[string]MapEntry
}
type MapEntry struct {
	Key     Value
	Present *Term
	Val     Value
}

type ChanData struct {
	Q      []Value
	Closed bool
}

// ChoiceV: guarded alternatives of non-term values (pointers, slices, interfaces...).
// Guards are mutually exclusive and exhaustive under the path guard.
type ChoiceV struct {
	Alts []Alt
}
type Alt struct {
	G *Term
	V Value
}

// ReflectV: a reflect.Value wrapping an interface value (only Kind/IsNil/Elem/CanSet are modelled)
type ReflectV struct {
	I    *IfaceV
	Elem bool
}

// Opaque: value of an unsupported kind (floats etc.); using it is an error.
type Opaque struct{ Why string }

type Object struct {
	ID       int
	Name     string
	Type     types.Type
	ReadOnly bool
	Global   bool
}

func (o *Object) String() string { return fmt.Sprintf("obj%d(%s)", o.ID, o.Name) }

// Heap maps object id to its current content: a persistent 32-ary trie, so that forking a state
// is O(1), a store copies one path, and merging two heaps only visits the parts that differ.
const heapLevels = 5 // ids < 32^5

type hnode struct {
	kids [32]*hnode
	vals [32]Value
	has  uint32
}

type Heap struct {
	root *hnode
}

func NewHeap() *Heap { return &Heap{} }

func (h *Heap) Clone() *Heap { return &Heap{root: h.root} }

func (h *Heap) getID(id int) (Value, bool) {
	n := h.root
	for lvl := heapLevels - 1; lvl > 0; lvl-- {
		if n == nil {
			return nil, false
		}
		n = n.kids[(id>>(5*uint(lvl)))&31]
	}
	if n == nil {
		return nil, false
	}
	s := id & 31
	if n.has&(1<<uint(s)) == 0 {
		return nil, false
	}
	return n.vals[s], true
}

func (h *Heap) Get(o *Object) (Value, bool) { return h.getID(o.ID) }

func setRec(n *hnode, lvl int, id int, v Value) *hnode {
	var c hnode
	if n != nil {
		c = *n
	}
	if lvl == 0 {
		s := id & 31
		c.vals[s] = v
		c.has |= 1 << uint(s)
		return &c
	}
	s := (id >> (5 * uint(lvl))) & 31
	c.kids[s] = setRec(c.kids[s], lvl-1, id, v)
	return &c
}

func (h *Heap) Set(o *Object, v Value) {
	if o.ID >= 1<<(5*heapLevels) {
		panic("object id overflow")
	}
	h.root = setRec(h.root, heapLevels-1, o.ID, v)
}

// each calls f for every (id, value)
func (h *Heap) each(f func(id int, v Value)) {
	var rec func(n *hnode, lvl int, base int)
	rec = func(n *hnode, lvl int, base int) {
		if n == nil {
			return
		}
		if lvl == 0 {
			for s := 0; s < 32; s++ {
				if n.has&(1<<uint(s)) != 0 {
					f(base|s, n.vals[s])
				}
			}
			return
		}
		for s := 0; s < 32; s++ {
			rec(n.kids[s], lvl-1, base|(s<<(5*uint(lvl))))
		}
	}
	rec(h.root, heapLevels-1, 0)
}

func samePath(a, b []int) bool {
	if len(a) != len(b) {
		return false
	}
	for i := range a {
		if a[i] != b[i] {
			return false
		}
	}
	return true
}

func appendPath(p []int, i int) []int {
	n := make([]int, len(p)+1)
	copy(n, p)
	n[len(p)] = i
	return n
}
