package main

// Integer semantics of Go operators over mathematical integers (W-int interpretation):
// every integer value is an Int term whose value lies in the range of its Go type.

import (
	"fmt"
	"go/token"
	"go/types"
	"math/big"
	"math/bits"
)

func (ex *Exec) wrapU(t *Term, ii intInfo) *Term { return ex.fromUnsigned(t, ii) }

func (ex *Exec) modC(t *Term, m *big.Int) *Term {
	_, r := ex.divmod(t, m)
	return r
}
func (ex *Exec) divC(t *Term, m *big.Int) *Term {
	q, _ := ex.divmod(t, m)
	return q
}

func (ex *Exec) wrap(t *Term, ii intInfo) *Term {
	if t.lo != nil && t.hi != nil && t.lo.Cmp(ii.lo) >= 0 && t.hi.Cmp(ii.hi) <= 0 {
		if ii.bits == 8 && !ii.signed {
			ex.recordByte(t, t)
		}
		return t
	}
	if !ii.signed {
		return ex.modC(t, pow2(ii.bits))
	}
	h := ex.ts.Int(pow2(ii.bits - 1))
	return ex.ts.Sub(ex.modC(ex.ts.Add(t, h), pow2(ii.bits)), h)
}

// toUnsigned returns the two's complement bit pattern of t as a non-negative integer.
func (ex *Exec) toUnsigned(t *Term, ii intInfo) *Term {
	if !ii.signed || (t.lo != nil && t.lo.Sign() >= 0) {
		return t
	}
	return ex.modC(t, pow2(ii.bits))
}

func (ex *Exec) fromUnsigned(t *Term, ii intInfo) *Term {
	if !ii.signed {
		return t
	}
	return ex.wrap(t, ii)
}

// bvFallback builds an Int-valued term computed through a bit-vector operation.
func (ex *Exec) bvFallback(op string, w uint, a, b *Term) *Term {
	if a.IsConst() && b.IsConst() {
		var r big.Int
		switch op {
		case "bvand":
			r.And(a.ival, b.ival)
		case "bvor":
			r.Or(a.ival, b.ival)
		case "bvxor":
			r.Xor(a.ival, b.ival)
		}
		return ex.ts.Int(&r)
	}
	ex.note("bit-vector fallback for " + op)
	if a.id > b.id {
		a, b = b, a
	}
	t := &Term{op: fmt.Sprintf("bv:%s:%d", op, w), args: []*Term{a, b}, sort: SInt, lo: bigZero, hi: new(big.Int).Sub(pow2(w), bigOne)}
	if op == "bvand" {
		if a.hi != nil && a.hi.Cmp(t.hi) < 0 {
			t.hi = a.hi
		}
		if b.hi != nil && b.hi.Cmp(t.hi) < 0 {
			t.hi = b.hi
		}
	}
	return ex.ts.intern(t)
}

func isLowMask(m *big.Int) (uint, bool) { // m = 2^k - 1
	if m.Sign() <= 0 {
		return 0, false
	}
	k := uint(m.BitLen())
	if new(big.Int).Add(m, bigOne).Cmp(pow2(k)) == 0 {
		return k, true
	}
	return 0, false
}

// contiguous mask: bits [j, k) set
func isContigMask(m *big.Int) (uint, uint, bool) {
	if m.Sign() <= 0 {
		return 0, 0, false
	}
	j := m.TrailingZeroBits()
	s := new(big.Int).Rsh(m, j)
	if k, ok := isLowMask(s); ok {
		return j, j + k, true
	}
	return 0, 0, false
}

// liftIte distributes a binary bit operation over an ite with constant branches.
func (ex *Exec) liftIte(a, b *Term, ii intInfo, f func(x, y *Term, ii intInfo) *Term) (*Term, bool) {
	if a.op == "ite" && (a.args[1].IsConst() || a.args[2].IsConst()) {
		return ex.ts.Ite(a.args[0], f(a.args[1], b, ii), f(a.args[2], b, ii)), true
	}
	if b.op == "ite" && (b.args[1].IsConst() || b.args[2].IsConst()) {
		return ex.ts.Ite(b.args[0], f(a, b.args[1], ii), f(a, b.args[2], ii)), true
	}
	return nil, false
}

func (ex *Exec) andOp(a, b *Term, ii intInfo) *Term {
	ts := ex.ts
	if a == b {
		return a
	}
	if r, ok := ex.liftIte(a, b, ii, ex.andOp); ok {
		return r
	}
	if b.IsConst() && !a.IsConst() {
		a, b = b, a
	}
	ua, ub := ex.toUnsigned(a, ii), ex.toUnsigned(b, ii)
	if ua.IsConst() {
		m := ua.ival
		if m.Sign() == 0 {
			return ts.Int64(0)
		}
		if m.Cmp(new(big.Int).Sub(pow2(ii.bits), bigOne)) == 0 {
			return b
		}
		// only the mask bits below the bit length of the operand matter
		if ub.lo != nil && ub.hi != nil && ub.lo.Sign() >= 0 {
			k := uint(ub.hi.BitLen())
			if k < ii.bits {
				low := new(big.Int).Mod(m, pow2(k))
				if low.Cmp(new(big.Int).Sub(pow2(k), bigOne)) == 0 {
					return b
				}
				if low.Cmp(m) != 0 {
					return ex.andOp(ex.fromUnsigned(ts.Int(low), ii), b, ii)
				}
			}
		}
		if j, k, ok := isContigMask(m); ok {
			x := ub
			if j > 0 {
				x = ex.divC(x, pow2(j))
			}
			x = ex.modC(x, pow2(k-j))
			if j > 0 {
				x = ts.Mul(ts.Int(pow2(j)), x)
			}
			return ex.fromUnsigned(x, ii)
		}
		// complement of contiguous mask: x - (x & ^m)
		inv := new(big.Int).Xor(m, new(big.Int).Sub(pow2(ii.bits), bigOne))
		if j, k, ok := isContigMask(inv); ok {
			x := ub
			part := x
			if j > 0 {
				part = ex.divC(part, pow2(j))
			}
			part = ex.modC(part, pow2(k-j))
			if j > 0 {
				part = ts.Mul(ts.Int(pow2(j)), part)
			}
			return ex.fromUnsigned(ts.Sub(x, part), ii)
		}
	}
	// 0/1 values
	if is01(ua) && is01(ub) {
		return ts.Ite(ts.And(ts.Eq(ua, ts.Int64(1)), ts.Eq(ub, ts.Int64(1))), ts.Int64(1), ts.Int64(0))
	}
	// x & (all-ones or zero) : b in {0, 2^w-1} pattern cannot be recognised syntactically; fall back
	return ex.fromUnsigned(ex.bvFallback("bvand", ii.bits, ua, ub), ii)
}

func is01(t *Term) bool {
	return t.lo != nil && t.hi != nil && t.lo.Sign() >= 0 && t.hi.Cmp(bigOne) <= 0
}

func (ex *Exec) orOp(a, b *Term, ii intInfo) *Term {
	ts := ex.ts
	if a == b {
		return a
	}
	if a.isZero() {
		return b
	}
	if b.isZero() {
		return a
	}
	if r, ok := ex.liftIte(a, b, ii, ex.orOp); ok {
		return r
	}
	// x | c for a constant c:  (x &^ c) + c
	if !ii.signed || (a.lo != nil && a.lo.Sign() >= 0 && b.lo != nil && b.lo.Sign() >= 0) {
		for k := 0; k < 2; k++ {
			if b.IsConst() && !a.IsConst() {
				all := new(big.Int).Sub(pow2(ii.bits), bigOne)
				nc := ts.Int(new(big.Int).Xor(b.ival, all))
				return ex.wrapU(ts.Add(ex.andOp(a, nc, intInfo{bits: ii.bits, lo: bigZero, hi: all}), b), ii)
			}
			a, b = b, a
		}
	}
	// x | -x  (sign mask idiom): zero iff x == 0, negative otherwise
	if ii.signed && ii.bits == 64 {
		if ex.negOf[b.id] == a || ex.negOf[a.id] == b {
			x := a
			if ex.negOf[a.id] == b {
				x = b
			}
			t := ts.intern(&Term{op: "bvorneg", args: []*Term{x}, sort: SInt, lo: new(big.Int).Neg(pow2(63)), hi: big.NewInt(-1)})
			return ts.Ite(ts.Eq(x, ts.Int64(0)), ts.Int64(0), t)
		}
	}
	ua, ub := ex.toUnsigned(a, ii), ex.toUnsigned(b, ii)
	disjoint := func(x, y *Term) bool { // y < 2^tz(x)
		return y.hi != nil && y.lo != nil && y.lo.Sign() >= 0 && x.tz < 4096 && y.hi.Cmp(pow2(x.tz)) < 0
	}
	if disjoint(ua, ub) || disjoint(ub, ua) {
		return ex.fromUnsigned(ts.Add(ua, ub), ii)
	}
	if is01(ua) && is01(ub) {
		return ts.Ite(ts.Or(ts.Eq(ua, ts.Int64(1)), ts.Eq(ub, ts.Int64(1))), ts.Int64(1), ts.Int64(0))
	}
	return ex.fromUnsigned(ex.bvFallback("bvor", ii.bits, ua, ub), ii)
}

func (ex *Exec) xorOp(a, b *Term, ii intInfo) *Term {
	ts := ex.ts
	if a == b {
		return ts.Int64(0)
	}
	if a.isZero() {
		return b
	}
	if b.isZero() {
		return a
	}
	if r, ok := ex.liftIte(a, b, ii, ex.xorOp); ok {
		return r
	}
	// a ^ (a ^ b) = b
	for k := 0; k < 2; k++ {
		if len(b.op) > 9 && b.op[:9] == "bv:bvxor:" {
			if b.args[0] == a {
				return b.args[1]
			}
			if b.args[1] == a {
				return b.args[0]
			}
		}
		a, b = b, a
	}
	ua, ub := ex.toUnsigned(a, ii), ex.toUnsigned(b, ii)
	all := new(big.Int).Sub(pow2(ii.bits), bigOne)
	if ua.IsConst() && ua.ival.Cmp(all) == 0 {
		return ex.fromUnsigned(ts.Sub(ts.Int(all), ub), ii)
	}
	if ub.IsConst() && ub.ival.Cmp(all) == 0 {
		return ex.fromUnsigned(ts.Sub(ts.Int(all), ua), ii)
	}
	if is01(ua) && is01(ub) {
		return ts.Ite(ts.Eq(ua, ub), ts.Int64(0), ts.Int64(1))
	}
	disjoint := func(x, y *Term) bool {
		return y.hi != nil && y.lo != nil && y.lo.Sign() >= 0 && x.tz < 4096 && y.hi.Cmp(pow2(x.tz)) < 0
	}
	if disjoint(ua, ub) || disjoint(ub, ua) {
		return ex.fromUnsigned(ts.Add(ua, ub), ii)
	}
	return ex.fromUnsigned(ex.bvFallback("bvxor", ii.bits, ua, ub), ii)
}

func (ex *Exec) shlOp(a, s *Term, ii intInfo) *Term {
	ts := ex.ts
	if s.IsConst() {
		k := s.ival
		if k.Sign() < 0 {
			fail("negative shift")
		}
		if k.Cmp(bi(int64(ii.bits))) >= 0 {
			return ts.Int64(0)
		}
		return ex.wrap(ts.Mul(ts.Int(pow2(uint(k.Int64()))), a), ii)
	}
	return ex.shiftCases(a, s, ii, true)
}

func (ex *Exec) shrOp(a, s *Term, ii intInfo) *Term {
	ts := ex.ts
	if s.IsConst() {
		k := s.ival
		if k.Sign() < 0 {
			fail("negative shift")
		}
		if k.Cmp(bi(int64(ii.bits))) >= 0 {
			if ii.signed {
				return ts.Ite(ts.Lt(a, ts.Int64(0)), ts.Int64(-1), ts.Int64(0))
			}
			return ts.Int64(0)
		}
		return ex.divC(a, pow2(uint(k.Int64())))
	}
	return ex.shiftCases(a, s, ii, false)
}

func (ex *Exec) shiftCases(a, s *Term, ii intInfo, left bool) *Term {
	ts := ex.ts
	if s.lo == nil || s.hi == nil || s.lo.Sign() < 0 {
		fail("shift by unbounded/negative symbolic amount")
	}
	lo, hi := s.lo.Int64(), s.hi
	maxk := int64(ii.bits)
	var top int64
	if hi.Cmp(bi(maxk)) > 0 {
		top = maxk
	} else {
		top = hi.Int64()
	}
	// value for s >= top (if top == bits: overshift)
	var res *Term
	if left {
		res = ex.shlOp(a, ts.Int64(top), ii)
	} else {
		res = ex.shrOp(a, ts.Int64(top), ii)
	}
	for k := top - 1; k >= lo; k-- {
		var v *Term
		if left {
			v = ex.shlOp(a, ts.Int64(k), ii)
		} else {
			v = ex.shrOp(a, ts.Int64(k), ii)
		}
		res = ts.Ite(ts.Eq(s, ts.Int64(k)), v, res)
	}
	return res
}

// truncating division (Go semantics)
func (ex *Exec) quoOp(a, b *Term, ii intInfo) *Term {
	ts := ex.ts
	nonneg := func(t *Term) bool { return t.lo != nil && t.lo.Sign() >= 0 }
	if a.IsConst() && b.IsConst() && b.ival.Sign() != 0 {
		return ex.wrap(ts.Int(new(big.Int).Quo(a.ival, b.ival)), ii)
	}
	if nonneg(a) && nonneg(b) {
		return ts.Div(a, b)
	}
	absA := ts.Ite(ts.Lt(a, ts.Int64(0)), ts.Neg(a), a)
	absB := ts.Ite(ts.Lt(b, ts.Int64(0)), ts.Neg(b), b)
	q := ts.Div(absA, absB)
	neg := ts.Not(ts.Eq(ts.Lt(a, ts.Int64(0)), ts.Lt(b, ts.Int64(0))))
	return ex.wrap(ts.Ite(neg, ts.Neg(q), q), ii)
}

func (ex *Exec) remOp(a, b *Term, ii intInfo) *Term {
	ts := ex.ts
	nonneg := func(t *Term) bool { return t.lo != nil && t.lo.Sign() >= 0 }
	if a.IsConst() && b.IsConst() && b.ival.Sign() != 0 {
		return ts.Int(new(big.Int).Rem(a.ival, b.ival))
	}
	if nonneg(a) && nonneg(b) {
		return ts.Mod(a, b)
	}
	absA := ts.Ite(ts.Lt(a, ts.Int64(0)), ts.Neg(a), a)
	absB := ts.Ite(ts.Lt(b, ts.Int64(0)), ts.Neg(b), b)
	r := ts.Mod(absA, absB)
	return ts.Ite(ts.Lt(a, ts.Int64(0)), ts.Neg(r), r)
}

func (ex *Exec) intBinOp(st *PState, op token.Token, a, b *Term, t types.Type, shiftT types.Type) Value {
	ts := ex.ts
	ii, ok := basicIntInfo(t)
	if !ok {
		fail("intBinOp on %s", t)
	}
	switch op {
	case token.ADD:
		return ex.wrap(ts.Add(a, b), ii)
	case token.SUB:
		return ex.wrap(ts.Sub(a, b), ii)
	case token.MUL:
		return ex.wrap(ts.Mul(a, b), ii)
	case token.QUO:
		ex.panicObligation(st, ts.Eq(b, ts.Int64(0)), "integer divide by zero")
		return ex.quoOp(a, b, ii)
	case token.REM:
		ex.panicObligation(st, ts.Eq(b, ts.Int64(0)), "integer divide by zero")
		return ex.remOp(a, b, ii)
	case token.AND:
		return ex.andOp(a, b, ii)
	case token.OR:
		return ex.orOp(a, b, ii)
	case token.XOR:
		return ex.xorOp(a, b, ii)
	case token.AND_NOT:
		all := new(big.Int).Sub(pow2(ii.bits), bigOne)
		nb := ex.fromUnsigned(ts.Sub(ts.Int(all), ex.toUnsigned(b, ii)), ii)
		return ex.andOp(a, nb, ii)
	case token.SHL, token.SHR:
		si, _ := basicIntInfo(shiftT)
		if si.signed {
			ex.panicObligation(st, ts.Lt(b, ts.Int64(0)), "negative shift amount")
		}
		if op == token.SHL {
			return ex.shlOp(a, b, ii)
		}
		return ex.shrOp(a, b, ii)
	}
	fail("unsupported int binop %s", op)
	return nil
}

func (ex *Exec) cmpOp(op token.Token, a, b *Term) *Term {
	ts := ex.ts
	switch op {
	case token.EQL:
		return ts.Eq(a, b)
	case token.NEQ:
		return ts.Not(ts.Eq(a, b))
	case token.LSS:
		return ts.Lt(a, b)
	case token.LEQ:
		return ts.Le(a, b)
	case token.GTR:
		return ts.Lt(b, a)
	case token.GEQ:
		return ts.Le(b, a)
	}
	fail("bad cmp")
	return nil
}

// convertInt converts integer term a of type from to integer type to.
func (ex *Exec) convertInt(a *Term, from, to intInfo) *Term {
	return ex.wrap(a, to)
}

// ---------- math/bits ----------

func (ex *Exec) umul(a, b *Term) *Term {
	ts := ex.ts
	if a.IsConst() || b.IsConst() {
		return ts.Mul(a, b)
	}
	if ex.cfg.MulMode == "nia" {
		return ts.Mul(a, b)
	}
	if a.id > b.id {
		a, b = b, a
	}
	hi := new(big.Int).Mul(new(big.Int).Sub(pow2(64), bigOne), new(big.Int).Sub(pow2(64), bigOne))
	if a.hi != nil && b.hi != nil {
		hi = new(big.Int).Mul(a.hi, b.hi)
	}
	d := ts.DeclareUF("umul", []Sort{SInt, SInt}, SInt, bigZero, nil)
	t := ts.intern(&Term{op: "uf:umul", args: []*Term{a, b}, sort: SInt, name: "umul", lo: bigZero, hi: hi})
	_ = d
	return t
}

// divmod splits s = q*m + r with 0 <= r < m. By default q and r are fresh constants tied to s by a
// definitional assertion (a conservative extension: q, r exist and are unique), which the LIA
// solvers handle much better than div/mod terms.
func (ex *Exec) divmod(s *Term, m *big.Int) (*Term, *Term) {
	ts := ex.ts
	mt := ts.Int(m)
	if s.IsConst() || ex.cfg.Opts["divmod"] == "term" {
		return ts.Div(s, mt), ts.Mod(s, mt)
	}
	if s.lo != nil && s.hi != nil && s.lo.Sign() >= 0 && s.hi.Cmp(m) < 0 {
		if m.Cmp(bi(256)) == 0 {
			ex.recordByte(s, s)
		}
		return ts.Int64(0), s
	}
	if s.op == "ite" && (s.args[1].IsConst() || s.args[2].IsConst() || (s.args[1].op != "ite" && s.args[2].op != "ite")) {
		q1, r1 := ex.divmod(s.args[1], m)
		q2, r2 := ex.divmod(s.args[2], m)
		return ts.Ite(s.args[0], q1, q2), ts.Ite(s.args[0], r1, r2)
	}
	// term-level simplification first: if both quotient and remainder reduce to something that is not
	// a div/mod node any more, no auxiliary constants are needed
	if rs := ts.Mod(s, mt); rs.op != "mod" {
		if qs := ts.Div(s, mt); qs.op != "div" {
			if m.Cmp(bi(256)) == 0 {
				ex.recordByte(rs, s)
			}
			return qs, rs
		}
	}
	pow2m := m.TrailingZeroBits() == uint(m.BitLen()-1)
	if pow2m && s.tz >= uint(m.BitLen()-1) {
		// s is a multiple of m
		return ts.Div(s, mt), ts.Int64(0)
	}
	key := fmt.Sprintf("%d/%s", s.id, m.String())
	if c, ok := ex.dmCache[key]; ok {
		return c[0], c[1]
	}
	var qlo, qhi *big.Int
	if s.lo != nil {
		qlo = floorDiv(s.lo, m)
	}
	if s.hi != nil {
		qhi = floorDiv(s.hi, m)
	}
	k := len(ex.dmCache)
	var q *Term
	if qlo != nil && qhi != nil && qlo.Cmp(qhi) == 0 {
		q = ts.Int(qlo)
	} else {
		q = ts.Var(fmt.Sprintf("dm!q%d", k), SInt, qlo, qhi)
	}
	r := ts.Var(fmt.Sprintf("dm!r%d", k), SInt, bigZero, new(big.Int).Sub(m, bigOne))
	if pow2m {
		r.tz = s.tz
	}
	eq := ts.Eq(s, ts.Add(ts.Mul(mt, q), r))
	if q.op == "var" && pow2m {
		ex.dmSrc[q.id] = dmSource{s: s, shift: uint(m.BitLen() - 1)}
	}
	if m.Cmp(bi(256)) == 0 {
		ex.recordByte(r, s)
	}
	if q.op == "var" {
		ex.defOf[q.id] = eq
	}
	ex.defOf[r.id] = eq
	ex.modSrc[r.id] = s
	ex.dmCache[key] = [2]*Term{q, r}
	return q, r
}

// recordByte remembers that r = s mod 256 is a particular byte of a machine word (used to
// recognise re-assembled integers in bytesToInt).
func (ex *Exec) recordByte(r, s *Term) {
	if r.IsConst() {
		return
	}
	src, shift := s, uint(0)
	if d, ok := ex.dmSrc[s.id]; ok {
		src, shift = d.s, d.shift
	}
	if src.lo == nil || src.lo.Sign() < 0 || src.hi == nil || shift%8 != 0 {
		return
	}
	n := (src.hi.BitLen() + 7) / 8
	if n <= 8 {
		for _, w := range []int{1, 2, 4, 8} {
			if n <= w {
				n = w
				break
			}
		}
	}
	j := int(shift / 8)
	if j < n {
		ex.byteProv[r.id] = byteProv{src: src, n: n, i: n - 1 - j}
	}
}

func (ex *Exec) bitsIntrinsic(st *PState, name string, args []Value) (Value, bool) {
	ts := ex.ts
	T := func(i int) *Term { return args[i].(*Term) }
	p64 := pow2(64)
	p32 := pow2(32)
	switch name {
	case "Add64", "Add":
		q, r := ex.divmod(ts.Add(T(0), T(1), T(2)), p64)
		return &TupleV{[]Value{r, q}}, true
	case "Add32":
		q, r := ex.divmod(ts.Add(T(0), T(1), T(2)), p32)
		return &TupleV{[]Value{r, q}}, true
	case "Sub64", "Sub":
		q, r := ex.divmod(ts.Sub(ts.Sub(T(0), T(1)), T(2)), p64)
		return &TupleV{[]Value{r, ts.Neg(q)}}, true
	case "Sub32":
		q, r := ex.divmod(ts.Sub(ts.Sub(T(0), T(1)), T(2)), p32)
		return &TupleV{[]Value{r, ts.Neg(q)}}, true
	case "Mul64", "Mul":
		q, r := ex.divmod(ex.umul(T(0), T(1)), p64)
		return &TupleV{[]Value{q, r}}, true
	case "Mul32":
		q, r := ex.divmod(ts.Mul(T(0), T(1)), p32)
		return &TupleV{[]Value{q, r}}, true
	case "Len64", "Len", "Len32", "Len16", "Len8":
		x := T(0)
		if x.IsConst() {
			return ts.Int64(int64(x.ival.BitLen())), true
		}
		w := 64
		switch name {
		case "Len32":
			w = 32
		case "Len16":
			w = 16
		case "Len8":
			w = 8
		}
		var parts []*Term
		for k := 0; k < w; k++ {
			parts = append(parts, ts.Ite(ts.Le(ts.Int(pow2(uint(k))), x), ts.Int64(1), ts.Int64(0)))
		}
		return ts.Add(parts...), true
	case "LeadingZeros64":
		l, _ := ex.bitsIntrinsic(st, "Len64", args)
		return ts.Sub(ts.Int64(64), l.(*Term)), true
	case "LeadingZeros32":
		l, _ := ex.bitsIntrinsic(st, "Len32", args)
		return ts.Sub(ts.Int64(32), l.(*Term)), true
	case "TrailingZeros64", "TrailingZeros", "TrailingZeros32":
		x := T(0)
		w := 64
		if name == "TrailingZeros32" {
			w = 32
		}
		if x.IsConst() {
			if x.ival.Sign() == 0 {
				return ts.Int64(int64(w)), true
			}
			return ts.Int64(int64(x.ival.TrailingZeroBits())), true
		}
		res := ts.Int64(int64(w))
		for k := w - 1; k >= 0; k-- {
			// tz = k iff x mod 2^(k+1) == 2^k
			res = ts.Ite(ts.Eq(ts.Mod(x, ts.Int(pow2(uint(k+1)))), ts.Int(pow2(uint(k)))), ts.Int64(int64(k)), res)
		}
		return res, true
	case "Reverse64", "Reverse32", "Reverse16", "Reverse8", "ReverseBytes64", "ReverseBytes32", "OnesCount64", "OnesCount":
		x := T(0)
		if x.IsConst() {
			v := x.ival.Uint64()
			switch name {
			case "Reverse64":
				return ts.Int(new(big.Int).SetUint64(bits.Reverse64(v))), true
			case "Reverse32":
				return ts.Int64(int64(bits.Reverse32(uint32(v)))), true
			case "Reverse16":
				return ts.Int64(int64(bits.Reverse16(uint16(v)))), true
			case "Reverse8":
				return ts.Int64(int64(bits.Reverse8(uint8(v)))), true
			case "ReverseBytes64":
				return ts.Int(new(big.Int).SetUint64(bits.ReverseBytes64(v))), true
			case "ReverseBytes32":
				return ts.Int64(int64(bits.ReverseBytes32(uint32(v)))), true
			default:
				return ts.Int64(int64(bits.OnesCount64(v))), true
			}
		}
		w := uint(64)
		switch name {
		case "Reverse32":
			w = 32
		case "Reverse16":
			w = 16
		case "Reverse8":
			w = 8
		}
		if name[:7] == "Reverse" && name[:8] != "ReverseB" {
			// sum of bit_k * 2^(w-1-k)
			var parts []*Term
			for k := uint(0); k < w; k++ {
				bit := ts.Mod(ts.Div(x, ts.Int(pow2(k))), ts.Int64(2))
				parts = append(parts, ts.Mul(ts.Int(pow2(w-1-k)), bit))
			}
			return ts.Add(parts...), true
		}
		if name == "OnesCount64" || name == "OnesCount" {
			var parts []*Term
			for k := uint(0); k < 64; k++ {
				parts = append(parts, ts.Mod(ts.Div(x, ts.Int(pow2(k))), ts.Int64(2)))
			}
			return ts.Add(parts...), true
		}
		fail("symbolic bits.%s unsupported", name)
	case "RotateLeft64":
		x, k := T(0), T(1)
		if !k.IsConst() {
			fail("symbolic rotate amount")
		}
		kk := uint(new(big.Int).Mod(k.ival, bi(64)).Int64())
		if kk == 0 {
			return x, true
		}
		hi, lo := ex.divmod(x, pow2(64-kk))
		return ts.Add(ts.Mul(ts.Int(pow2(kk)), lo), hi), true
	}
	return nil, false
}
