"""Registry of checks: property -> jobs (package under test x harness templates)."""
from vf import Job

FIELDS64 = [
    "ecc/bn254/fr", "ecc/bn254/fp", "ecc/bls12-377/fr", "ecc/bls12-377/fp", "ecc/bls12-381/fr", "ecc/bls12-381/fp",
    "ecc/bls24-315/fr", "ecc/bls24-315/fp", "ecc/bls24-317/fr", "ecc/bls24-317/fp", "ecc/bw6-633/fr", "ecc/bw6-633/fp",
    "ecc/bw6-761/fr", "ecc/bw6-761/fp", "ecc/grumpkin/fr", "ecc/grumpkin/fp", "ecc/secp256k1/fr", "ecc/secp256k1/fp",
    "ecc/stark-curve/fr", "ecc/stark-curve/fp",
]
FIELDS_SMALL64 = ["field/goldilocks"]
FIELDS32 = ["field/koalabear", "field/babybear"]
ALL_FIELDS = FIELDS64 + FIELDS_SMALL64 + FIELDS32


def wordbits(f):
    return 32 if f in FIELDS32 else 64


PROPS = {}

PROPS["C01"] = dict(
    jobs=[Job(f, ["C01/common.go.tmpl", "C01/linear.go.tmpl"], params=dict(WordBits=wordbits(f))) for f in ALL_FIELDS],
    explanation="",
    assumptions=[],
)
