"""Registry of checks: property -> jobs (package under test x harness templates)."""
from vf import Job

FIELDS64 = [
    "ecc/bn254/fr", "ecc/bn254/fp", "ecc/bls12-377/fr", "ecc/bls12-377/fp", "ecc/bls12-381/fr", "ecc/bls12-381/fp",
    "ecc/bls24-315/fr", "ecc/bls24-315/fp", "ecc/bls24-317/fr", "ecc/bls24-317/fp", "ecc/bw6-633/fr", "ecc/bw6-633/fp",
    "ecc/bw6-761/fr", "ecc/bw6-761/fp", "ecc/grumpkin/fr", "ecc/grumpkin/fp", "ecc/secp256k1/fr", "ecc/secp256k1/fp",
    "ecc/stark-curve/fr", "ecc/stark-curve/fp",
]
FIELDS_SMALL64 = ["field/goldilocks"]
FIELDS32 = ["field/koalabear", "field/babybear"]
ALL_FIELDS = FIELDS64 + FIELDS_SMALL64 + FIELDS32


def wordbits(f):
    return 32 if f in FIELDS32 else 64


PROPS = {}
NOTES = ("All checks are solver-based: gosmt symbolically executes the go/ssa form of /repo's current working tree "
         "(build tag purego) together with an in-package harness injected by overlay, and z3/cvc5 decide every "
         "obligation. Bounds and what lies outside them are stated per check in level_note and in the evidence file. "
         "Goroutine schedules, AVX-512/arm64 assembly and text formats are outside this technique (DESIGN.md §4).")

for _p in ["C%02d" % i for i in range(1, 21)]:
    PROPS[_p] = dict(jobs=[], na_reason="check not built yet in this session (plan: DESIGN.md §3)")

PROPS["C09"] = dict(jobs=[], na_reason=(
    "The property compares hand-written amd64 assembly (with/without ADX, AVX-512 vector kernels) and the portable Go code selected by "
    "the purego tag. The symbolic executor works on go/ssa, where assembly routines are declarations without bodies; the machine-code "
    "front-end sketched in DESIGN.md §3 (objdump of the freshly built package -> executor) was not built, and the AVX-512 lane "
    "instructions (VP*) and arm64 were out of reach of a hand-written encoder from the start. Encoding only the Go side would "
    "compare the portable code with itself, which decides nothing about the property; no other technique is substituted "
    "(DESIGN.md §9.5). The portable paths themselves are what C01, C06, C08, C10, C14, C18, C19 analyse."))

LIMBS = {"ecc/bls12-377/fp": 6, "ecc/bls12-381/fp": 6, "ecc/bw6-761/fr": 6, "ecc/bls24-315/fp": 5, "ecc/bls24-317/fp": 5,
         "ecc/bw6-633/fr": 5, "ecc/bw6-633/fp": 10, "ecc/bw6-761/fp": 12}


def limbs(f):
    return LIMBS.get(f, 4)


def mul_params(f):
    n = limbs(f)
    tv = "+".join("t%d" % i for i in range(n))
    hdr = "//verif:harness capture=Mul:%s+m trigger=v cut=%s pin=^x" % (tv, tv)
    sym = "\n".join("%s\nfunc H_Mul_Round_%d() { vMulRounds(%d) }" % (hdr, r, r) for r in range(n))
    sym += "\n%s\nfunc H_Mul_Final() { vMulRounds(%d) }" % (hdr, n)
    nat = "\n".join("func H_Mul_Round_%d() { vNativeMul() }" % r for r in range(n)) + "\nfunc H_Mul_Final() { vNativeMul() }"
    return dict(WordBits=64, TVars=tv, RoundHarnesses=sym, RoundHarnessesNative=nat)


NOCARRY = [f for f in FIELDS64 if "secp256k1" not in f]
# 10- and 12-limb fields: some round lemmas end as solver 'unknown' at 400 s on the current engine (they went through in an
# earlier state of the encoder): not registered in any tier
MUL_UNSTABLE = ["ecc/bw6-633/fp", "ecc/bw6-761/fp"]
MUL_SLOW = ["ecc/bls12-381/fp", "ecc/bw6-633/fp", "ecc/bw6-761/fp"]  # 6/10/12 limbs: round lemmas need the long timeout

PROPS["C01"] = dict(
    jobs=[Job(f, ["C01/common.go.tmpl", "C01/linear.go.tmpl"], params=dict(WordBits=wordbits(f))) for f in ALL_FIELDS] +
         [Job(f, ["C01/exp.go.tmpl"], label=f + "#exp", params=dict(ExpBits=8, ExpUnroll=18, PkgSuffix=f.split("/", 1)[1] if f.startswith("ecc/") else f.split("/")[-1])) for f in ALL_FIELDS] +
         [Job(f, ["C01/common.go.tmpl", "C01/mul_nocarry.go.tmpl"], label=f + "#mul",
              tier="thorough" if f in MUL_SLOW else "quick", timeout_ms=400000 if f in MUL_SLOW else 150000, jobs=8 if f in MUL_SLOW else 4,
              params=mul_params(f)) for f in NOCARRY if f not in MUL_UNSTABLE],
    level_text="Bounded proof per field package: linear operations and predicates at full width against math/big (all 23 "
               "fields); Montgomery multiplication of the no-carry fields by one lemma per round (cut at each multiplier word, "
               "the code's quotient word as witness) plus the final subtraction and an arithmetic closing step; Exp by any "
               "integer in the exponent interpretation (|k| < 2^8 symbolic, special multi-word exponents of both signs).",
    level_note="Products of two symbolic words are the uninterpreted umul shared by code and specification, with the row bound "
               "x_r*Y <= (2^64-1)(q-1) as the only assumed fact; counterexamples found in that abstraction are re-solved with one "
               "operand pinned (exact query) and replayed natively. purego build is what is encoded.",
    explanation="linear ops: Add Sub Neg Double Halve Select Equal NotEqual IsZero IsOne smallerThanModulus SetZero SetOne; "
                "Mul (15 no-carry fields in the quick tier, bls12-381/fp in the thorough tier; not the 10/12-limb fields); Exp",
    bounds="full-width operands < q; Exp: |k| < 2^8 symbolic + 32 special exponents",
    outside="Square, fromMont, Inverse, Sqrt, Legendre, BatchInvert, small-field Mul, secp256k1 (CIOS) Mul, Mul of the 10- and 12-limb fields "
            "(bw6-633/fp, bw6-761/fp: round lemmas time out): not covered; assembly back ends (C09)",
    assumptions=["operands are reduced", "umul(a,b) denotes a*b: only the row bound is used"],
)

PROPS["C13"] = dict(
    jobs=[Job("field/hash", ["common/vhash.go.tmpl", "C13/expand.go.tmpl"])],
    level_text="Bounded proof of expand_message_xmd against the RFC 9380 recurrence with the hash as a free function.",
    level_note="SHA-256 replaced by an uninterpreted streaming hash (sizes 32/64 kept).",
    bounds="lenInBytes 0..70 (content), 8129..8160 (accepted, output length; 255 blocks), >8160 (error path); len(msg),len(dst) <= 2; len(dst) 253..258",
    outside="RFC byte vectors (need concrete SHA-256)",
    assumptions=["hash = uninterpreted streaming function"],
)

MIMC = ["ecc/bn254/fr/mimc", "ecc/bls12-377/fr/mimc", "ecc/bls12-381/fr/mimc", "ecc/bls24-315/fr/mimc",
        "ecc/bls24-317/fr/mimc", "ecc/bw6-633/fr/mimc", "ecc/bw6-761/fr/mimc", "ecc/grumpkin/fr/mimc"]

MIMC_D = {"ecc/bls12-377/fr/mimc": 17, "ecc/bls24-317/fr/mimc": 7}  # documented exponents (others: 5)

PROPS["C14"] = dict(
    jobs=[Job(m, ["C14/mimc_write.go.tmpl", "C14/mimc_stream.go.tmpl", "C14/mimc_round.go.tmpl"],
              params=dict(FrPath="github.com/consensys/gnark-crypto/" + m[:-5], FrSuffix=m[4:-5], MimcD=MIMC_D.get(m, 5))) for m in MIMC],
    level_text="Bounded proof, per MiMC package (8 curves): block parser on arbitrary byte slices (exact limb-level code), "
               "streaming laws and Miyaguchi-Preneel/round-function structure with field elements interpreted by their "
               "canonical value; every obligation unsat in z3/cvc5, counterexamples replayed natively.",
    level_note="Streaming/round harnesses rely on the felt interpretation of fr.Element (linear ops exact mod q, products "
               "uninterpreted modulo associativity/commutativity, byte conversions exact): these are the contracts of C01/C08. "
               "encrypt is an uninterpreted function in the streaming harnesses; round constants are symbolic (their Keccak "
               "derivation is outside the claim).",
    bounds="Write: len(p) <= 2*BlockSize+1, spare capacity <= BlockSize, all byte values; streaming: 2 blocks (3 blocks for the split laws), "
           "histories Write/Write/Sum/Sum/Reset/State/SetState as written in the harness (incl. SetState with one block pending); round: 2 blocks, all rounds",
    outside="Poseidon2, SIS (not built yet); constants derivation; messages longer than 3 blocks",
    assumptions=["felt summaries of fr.Element operations", "hash registry not exercised"],
)

PROPS["C15"] = dict(
    jobs=[Job("fiat-shamir", ["common/vhash.go.tmpl", "C15/transcript.go.tmpl"]),
          Job("fiat-shamir", ["common/vhash.go.tmpl", "C15/transcript.go.tmpl", "C15/transcript4.go.tmpl"], only="Len5", tier="thorough", label="fiat-shamir-long")],
    level_text="Bounded proof: every call history of length <= 4 (quick) / <= 5 (thorough) over "
               "{Bind, ComputeChallenge} x {two declared names, one undeclared} and caller-side mutations of bound / returned "
               "slices is executed symbolically (byte values and hash free) and compared call by call with a sequential "
               "reference model; all obligations unsat.",
    level_note="Hash is an uninterpreted streaming function (sizes of SHA-256); shapes are enumerated by the harness, values are symbolic.",
    bounds="2 declared names + 1 undeclared, 2-byte bound values, history length <= 4 quick (4680 histories) / <= 5 thorough (37448 histories)",
    outside="more than 2 names, longer histories, MiMC as transcript hash (block-length errors)",
    assumptions=["hash = uninterpreted streaming function"],
)

PROPS["C16"] = dict(
    jobs=[Job("field/koalabear/vortex", ["C16/vortex_merkle.go.tmpl"]),
          Job("accumulator/merkletree", ["common/vhash.go.tmpl", "C16/acc_stubs.go.tmpl", "C16/acc_merkle.go.tmpl"])],
    level_text="Bounded proof for both Merkle trees: root = recursive tree hash, honest proofs verify, and with the hash an "
               "injective uninterpreted function every single-component tampering (symbolic index, leaf, root, each sibling, "
               "shortened / extended proof) is rejected; cached sub-trees give the same root.",
    level_note="Hash functions (Poseidon2 compression; leafSum/nodeSum of the accumulator) are injective uninterpreted functions "
               "with disjoint leaf/node ranges (collision resistance). koalabear.Element by canonical value.",
    bounds="vortex: n in {1,2,3,4,5,8} honest, tampering n in {3,4,8}; accumulator: every (n,i) with n<=9 honest, tampering "
           "for (n,i) in {(2,0),(3,2),(5,1),(5,4),(6,5),(7,6)}, symbolic index < 128, 2-byte leaves; PushSubTree roots n=8 (heights 1,2), "
           "proofs with one cached sub-tree for (n,height) in {(4,0),(6,1),(8,1),(8,2)}, every start and proven leaf",
    outside="n beyond the bounds; ReadAll segment readers; real-hash collisions",
    assumptions=["hash injective on the finitely many inputs of a harness", "leaf data (2 bytes) and node input (64 bytes) hash to different digests"],
)

PROPS["C17"] = dict(
    jobs=[Job("field/koalabear/vortex", ["C17/vortex_verify.go.tmpl"])],
    level_text="Bounded proof of the Vortex verifier's acceptance condition: acceptance implies every check the scheme "
               "requires (claims vs UAlpha(x), Reed-Solomon membership, column hash in the Merkle tree at its position, "
               "column/UAlpha consistency), and malformed proof sizes are rejected without panic.",
    level_note="All algebraic/cryptographic sub-routines (SIS hash, Poseidon2, RS test, polynomial evaluation) are uninterpreted "
               "functions: the check decides which relations the verifier enforces, not their arithmetic. Abstract "
               "counterexamples are replayed by a native twin that builds the corresponding concrete forgery.",
    bounds="2 rows, codeword size 4, 2 selected columns with symbolic positions",
    outside="the other seven schemes (Pedersen, shplonk, fflonk, permutation, plookup, FRI, mpcsetup); prover completeness",
    assumptions=["sub-routines as uninterpreted functions"],
)

IOP = ["ecc/bn254/fr/iop", "ecc/bls12-377/fr/iop", "ecc/bls12-381/fr/iop", "ecc/bls24-315/fr/iop", "ecc/bls24-317/fr/iop",
       "ecc/bw6-633/fr/iop", "ecc/bw6-761/fr/iop"]

PROPS["C20"] = dict(
    jobs=[Job(m, ["C20/iop_shift.go.tmpl"], params=dict(FrPath="github.com/consensys/gnark-crypto/" + m[:-4], FrSuffix=m[4:-4])) for m in IOP],
    level_text="Bounded proof (7 curves) that Evaluate of a shifted canonical polynomial is p(w^shift x) and that GetCoeff "
               "indexes entry (i+shift) mod n in both layouts, for shifts {0,1,2,4,5,6,9,-1,-7} / {0,1,3,4,5,7,-1,-6} and every "
               "index, with symbolic coefficients and point.",
    level_note="fr.Element by canonical value (felt), products uninterpreted modulo AC with zero/zero-divisor facts, the domain "
               "generator an opaque element. Conversions between bases (FFT) are not covered yet.",
    bounds="size 4; canonical/regular for Evaluate, also with the vector extended to length 8 (SetSize 4; shifts 1, 7, -3); Lagrange regular and bit-reversed for GetCoeff (regular also with length 8 / size 4, shifts 1, 3, 6, -1, -5)",
    outside="form conversions, barycentric evaluation, derived builders, sizes > 4",
    assumptions=["felt summaries of fr.Element", "fft.Generator(m) is a fixed element depending only on m"],
)

PROPS["C08"] = dict(
    # 12-limb field: SetBytes on values >= q and SetBigInt are at the edge of the solver time limit (unknown on some runs): not registered
    jobs=[Job(f, ["C08/conv.go.tmpl"], skip_quick="H_SetBytes_Exact" if f == "ecc/bw6-633/fp" else None,
              skip="H_SetBytes_Exact|H_SetBigInt" if f == "ecc/bw6-761/fp" else None,
              timeout_ms=60000) for f in FIELDS64],
    level_text="Bounded proof, for the 20 multi-limb fields, that every byte / big.Int / word conversion entry point is exactly "
               "'parse, validate, reduce, then toMont' resp. 'fromMont, then serialise': Bytes, Marshal, BigEndian/LittleEndian "
               "PutElement and Element, SetBytesCanonical (accepts iff length = Bytes and value < q, receiver untouched on error), "
               "SetBytes (lengths 0, 1, Bytes-1, Bytes, Bytes+1), SetBigInt for |v| < 2^(64*Limbs+64) of either sign, BigInt, Bits, "
               "IsUint64, Uint64, Cmp, LexicographicallyLargest.",
    level_note="toMont and fromMont are uninterpreted functions on limb vectors in this check; their arithmetic content is the "
               "Montgomery lemma of C01 (Mul with the constant rSquare; fromMont not yet proved). Text formats (decimal, hex, JSON) "
               "are outside this technique (strconv / big text parsing loops).",
    bounds="all byte values symbolic; lengths as listed; |v| < 2^(64*Limbs+64)",
    outside="text and JSON; Vector WriteTo/ReadFrom/AsyncReadFrom; SetInterface; one-word fields (goldilocks, koalabear, babybear); "
            "on bw6-761/fp (12 limbs) SetBigInt and SetBytes for values >= q (solver time limit)",
    assumptions=["toMont / fromMont as opaque functions of the limb vector"],
)

CURVES = ["bn254", "bls12-377", "bls12-381", "bls24-315", "bls24-317", "bw6-633", "bw6-761", "grumpkin", "secp256k1", "stark-curve"]


def curve_params(c, g="G1"):
    return dict(G=g, g=g.lower(), Full=0 if c == "stark-curve" else 1, FpPath="github.com/consensys/gnark-crypto/ecc/%s/fp" % c, FpSuffix="%s/fp" % c,
                ACoeff="aCurveCoeff" if c != "secp256k1" and c != "grumpkin" else "fp.Element{}")


PROPS["C02"] = dict(
    jobs=[Job("ecc/" + c, ["C02/points.go.tmpl", "C02/g1.go.tmpl"], params=curve_params(c)) for c in CURVES] +
         [Job(pkg, ["C02/edwards_ext.go.tmpl"], params=dict(FrPath="github.com/consensys/gnark-crypto/ecc/%s/fr" % pkg.split("/")[1], FrSuffix=pkg.split("/")[1] + "/fr"))
          for pkg in ["ecc/bn254/twistededwards", "ecc/bls12-377/twistededwards", "ecc/bls12-381/twistededwards", "ecc/bls12-381/bandersnatch",
                      "ecc/bls24-315/twistededwards", "ecc/bls24-317/twistededwards", "ecc/bw6-633/twistededwards", "ecc/bw6-761/twistededwards"]],
    level_text="Proof (no size bound: coordinates are arbitrary field elements) that G1 point arithmetic of the 10 short-Weierstrass "
               "curves implements the chord-and-tangent law in affine, Jacobian and extended-Jacobian coordinates: Add/Sub/Double/Neg, "
               "mixed variants, the bucket operations add/addMixed/subMixed/double/doubleMixed/doubleNegMixed, conversions, Equal, "
               "IsInfinity and IsOnCurve, for every stratum of operand pairs (either operand infinite, equal points given by different "
               "representatives, opposite points, 2-torsion, generic) and arbitrary projective scalings; BatchJacobianToAffine with "
               "infinity at any position; twisted Edwards extended coordinates: independence of the representative in the doubling "
               "branch of MixedAdd.",
    level_note="Base-field elements are interpreted as reals: a rational identity with integer coefficients valid over Q is valid in "
               "every field where its denominators are units; non-vanishing conclusions (Z3 != 0) are transferred to F_p by assumption. "
               "The curve equation is used only to argue that the strata are exhaustive. Counterexamples are replayed natively on "
               "genuine curve points close to the model.",
    bounds="none on coordinates; G1 only; batch conversion of 3 points",
    outside="G2 (E2/E4 coordinates), twisted Edwards group law (only: MixedAdd on equal points agrees with Double for every representative, "
            "MixedDouble = Double on normalised points, 8 packages), subgroup membership tests, batch scalar multiplication",
    assumptions=["real-closed-field surrogate for F_p (identities exact, inequations assumed to transfer)", "finite points are not (0,0)"],
)

TOWER12 = {"bn254": dict(Beta=-1, XiA=9, XiB=1, DTwist=1, MTwist=0, FrobCube=1, FrobMax=3), "bls12-377": dict(Beta=-5, XiA=0, XiB=1, DTwist=1, MTwist=0, FrobCube=0, FrobMax=2),
           "bls12-381": dict(Beta=-1, XiA=1, XiB=1, DTwist=0, MTwist=1, FrobCube=0, FrobMax=2)}


def tower_params(c):
    d = dict(TOWER12[c])
    d.update(FpPath="github.com/consensys/gnark-crypto/ecc/%s/fp" % c, FpSuffix="%s/fp" % c)
    return d


PROPS["C06"] = dict(
    jobs=[Job("ecc/%s/internal/fptower" % c, ["C06/tower12.go.tmpl", "C06/frob_basis.go.tmpl"], params=tower_params(c), goarch="arm64") for c in TOWER12] +
         [Job("ecc/%s/internal/fptower" % c, ["C06/tower12_l2.go.tmpl"], params=tower_params(c), goarch="arm64", label=c + "#E6overE2") for c in TOWER12] +
         [Job("ecc/%s/internal/fptower" % c, ["C06/tower12_l6.go.tmpl"], params=tower_params(c), goarch="arm64", label=c + "#E12overE6") for c in TOWER12],
    level_text="Proof (no size bound) for the Fp2/Fp6/Fp12 towers of bn254, bls12-377 and bls12-381 that ring operations, "
               "sparse line products (MulBy034/34, Mul034By034, Mul34By34, MulBy01234; MulBy014/01, Mul014By014, Mul01By01, "
               "MulBy01245; E6.MulByE2/MulBy01/MulBy1/MulBy12), conjugation, norms, halving, non-residue multiplications and "
               "inverses equal schoolbook arithmetic in the documented quotient rings, every coordinate arbitrary (zero included); "
               "Frobenius maps are additive, Fp-linear and equal x -> x^(p^k) on the twelve basis elements.",
    level_note="Identities are decided over the reals for the base field (valid in every field). Inverses and E6/E12 Mul/Square "
               "are additionally proved one level up with the level below abstract and the non-residue a free atom. The "
               "generic (non-assembly) E2 code is selected by loading with GOARCH=arm64; amd64 E2 assembly is C09's subject. "
               "Table constants given as Montgomery limbs are converted to rationals (or opaque atoms) by the encoder.",
    bounds="none on operands; three 12-over-6-over-2 towers",
    outside="bls24 (E4/E24) and bw6 (E3/E6) towers, small-field extensions, cyclotomic/compressed squarings, torus compression, "
            "Expt/ExpGLV/Exp, square roots, batch inversion, GT membership: not yet covered",
    assumptions=["real surrogate for F_p", "x^(p^k) is additive (characteristic p)"],
)

PROPS["C19"] = dict(
    jobs=[Job(f, ["C01/common.go.tmpl", "C19/field.go.tmpl"], params=dict(WordBits=wordbits(f))) for f in ALL_FIELDS] +
         [Job("ecc/" + c, ["C19/curve.go.tmpl"], params=curve_params(c), label=c + "#alias") for c in CURVES if c != "stark-curve"] +
         [Job("ecc/%s/internal/fptower" % c, ["C19/tower.go.tmpl"], params=tower_params(c), goarch="arm64", label=c + "#toweralias") for c in TOWER12],
    level_text="Proof that methods give the same result when receiver and operands are the same variable as when they are "
               "distinct copies, and leave non-receiver operands unchanged: field elements of all 23 fields (Add, Sub, Mul, Square, Neg, "
               "Double, Set, Select, Butterfly; full-width symbolic words), G1 points of 9 curves (Jacobian AddAssign/SubAssign/Double/Neg, "
               "affine Add/Sub/Neg in every alias pattern, extended add/double), E2/E6/E12 of the three 12-towers (ring operations, "
               "Inverse, Div, Conjugate, non-residue products, Frobenius maps, CyclotomicSquare; E6.MulByE2 also with the E2 operand inside the receiver).",
    level_note="Both executions are symbolic over the same inputs (field level: machine words with shared uninterpreted products; "
               "curve/tower level: base-field elements as reals); equality of results is decided by the solver or syntactically.",
    bounds="none on operands",
    outside="G2, twisted Edwards, polynomial packages, vector operations with overlapping sub-slices, remaining towers",
    assumptions=[],
)

GLV_CURVES = ["bn254", "bls12-377", "bls12-381", "bls24-315", "bls24-317", "bw6-633", "bw6-761", "secp256k1"]

PROPS["C03"] = dict(
    jobs=[Job("ecc/" + c, ["C03/scalarmul.go.tmpl"], params=dict(Curve=c, ScalarBits=6, SplitBits=300, SplitSlack=3, GLV=1 if c in GLV_CURVES else 0))
          for c in CURVES if c != "stark-curve"],
    level_text="Bounded proof, for G1 of 9 curves, that mulWindowed, the GLV joint-window loop (mulGLV) and Straus-Shamir "
               "JointScalarMultiplication compute exactly the linear combination prescribed by their scalars in the free-module "
               "interpretation (point operations = vector operations over formal generators Q, phi(Q) resp. a1, a2), for all four sign "
               "patterns, zero, and multi-word scalars; and that the lattice decomposition SplitScalar satisfies k0 + lambda*k1 = s (mod r) "
               "with short k0, k1 for every |s| < 2^300, lambda^2 + lambda + 1 = 0 (mod r).",
    level_note="Point formulas themselves are C02's subject; here AddAssign/Double/Neg/phi are summarised by their module action "
               "(phi^2 + phi + 1 = 0). Bits(SetBigInt(v)) of the scalar field is summarised as 'limbs of v mod r' (C08). "
               "The lattice basis is the one computed by the package's own init (executed concretely).",
    bounds="window loops: scalars with |s| < 2^6 (quick) in every sign pattern plus scalars a + b*2^64 + c*2^128 with 2-bit a,b,c; "
           "SplitScalar: |s| < 2^300",
    outside="full-length symbolic scalars for the window loops (needs per-window invariants), G2, BatchScalarMultiplication, "
            "twisted Edwards and bandersnatch scalar multiplication",
    assumptions=["module summaries of point operations", "Bits(SetBigInt(v)) = limbs of v mod r"],
)

MSM_CURVES = ["bn254", "bls12-377", "bls12-381", "bls24-315", "bls24-317", "bw6-633", "bw6-761"]

def digit_harnesses():
    hdr = "//verif:harness cutloop=partitionScalars$1 cut=carry"
    return "\n".join("%s\nfunc H_Digits_C%d() { vDigits(%d) }" % (hdr, c, c) for c in range(4, 10))


PROPS["C04"] = dict(
    jobs=[Job("ecc/" + c, ["C04/digits.go.tmpl"], params=dict(Curve=c, DigitHarnesses=digit_harnesses()), jobs=8, timeout_ms=90000,
              # window 9 (and 7 on bw6-633) only went through with the machine otherwise idle and starve the other lemmas when run together: not registered
              skip="H_Digits_C9|H_Digits_C7" if c == "bw6-633" else "H_Digits_C9") for c in MSM_CURVES] +
         [Job("ecc/" + c, ["C04/chunks.go.tmpl"], params=dict(Curve=c, C=4), label=c + "#chunk") for c in MSM_CURVES] +
         [Job("ecc/" + c, ["C04/msm_e2e.go.tmpl"], params=dict(Curve=c, MsmBits=10), label=c + "#e2e") for c in MSM_CURVES],
    level_text="Bounded proof for G1 of the 7 MSM curves, by components: (1) signed-digit recoding of partitionScalars, one lemma "
               "per chunk from an arbitrary incoming carry (cut at the loop head), for full-width scalars < r and every window size "
               "c in 4..8 (not 7 on bw6-633, whose bit-126 window lemma does not finish in the time limit), plus the telescoping closing step for c in 4..16 and zero scalars; (2) the bucket "
               "processor for one chunk with symbolic digits and (3) the Horner reduction over chunk totals in the free-module "
               "interpretation; (4) MultiExp end to end for two points with symbolic 10-bit scalars through the sequential schedule "
               "(semaphore path and default path), and its error reporting.",
    level_note="Point operations are summarised by their module action (C02 proves the formulas); goroutines run to completion at "
               "their spawn point, channels are FIFO queues, the semaphore is a token queue: ONE schedule. Independence of "
               "GOMAXPROCS / interleavings and liveness under all schedules are outside this technique (DESIGN.md section 4).",
    bounds="digits: scalars < r full width, c in 4..8 quick; chunk processor: 3 points, c = 4, every digit encoding; reduction: "
           "4 chunks; end to end: n = 2, scalars < 2^10, NbTasks in {1, 8}, NumCPU = 4",
    outside="schedules; window sizes 9..16 for the digit lemmas (statistics use floating point); batch-affine processor; "
            "G2; Fold; recursive splitting; n > 2 end to end",
    assumptions=["module summaries of point operations", "Bits() of a scalar are its regular-form limbs (C08)", "sequential schedule"],
)

PAIRING_CURVES = ["bn254", "bls12-377", "bls12-381", "bls24-315", "bls24-317", "bw6-633", "bw6-761"]

G2_COORD = {"bn254": "E2", "bls12-377": "E2", "bls12-381": "E2", "bls24-315": "E4", "bls24-317": "E4", "bw6-633": None, "bw6-761": None}


def codec_params(c, pt):
    d = dict(curve_params(c))
    two_bit = c in ("bn254", "grumpkin", "stark-curve")
    shift = 6 if two_bit else 5
    nflags = 4 if two_bit else 8
    tower = pt == "G2Affine" and G2_COORD[c] is not None
    coord = "fptower." + G2_COORD[c] if tower else "fp.Element"
    pkgpath = "github.com/consensys/gnark-crypto/ecc/" + c
    hs = []
    for sub in (True, False):
        for size, nm in (("SizeOf%sCompressed" % pt, "Compressed"), ("SizeOf%sUncompressed" % pt, "Raw")):
            for f in range(nflags):
                hs.append("func H_%s_Decode_%s_%s_%s() { vDecodeAny%s(%s, %s, %d) }" % (pt, "Sub" if sub else "NoSub", nm, format(f, "03b"), pt, "true" if sub else "false", size, f))
    hs.append("func H_%s_Decode_Sub_Between() { vDecodeAny%s(true, SizeOf%sUncompressed-1, 0) }" % (pt, pt, pt))
    hs.append("func H_%s_Decode_Sub_Longer() { vDecodeAny%s(true, SizeOf%sUncompressed+1, 0) }" % (pt, pt, pt))
    stubs = ""
    if tower:
        t = "(*%s/internal/fptower.%s)" % (pkgpath, G2_COORD[c])
        stubs = ",%s.Sqrt:vTSqrt%s,%s.Legendre:vTLegendre%s" % (t, pt, t, pt)
    d.update(FlagShift=shift, DecodeHarnesses="\n".join(hs), Pt=pt, Coord=coord, Tower=1 if tower else 0,
             HasA=1 if c == "stark-curve" else 0, TowerPath=pkgpath + "/internal/fptower", TowerStubs=stubs, PkgPath=pkgpath,
             BCoeff="bCurveCoeff" if pt == "G1Affine" else "bTwistCurveCoeff")
    return d


C07_JOBS = [Job("ecc/" + c, ["C07/pointcodec.go.tmpl"], params=codec_params(c, "G1Affine"), jobs=8) for c in PAIRING_CURVES + ["grumpkin", "stark-curve"]]
EDWARDS = ["ecc/bn254/twistededwards", "ecc/bls12-377/twistededwards", "ecc/bls12-381/twistededwards", "ecc/bls12-381/bandersnatch",
           "ecc/bls24-315/twistededwards", "ecc/bls24-317/twistededwards", "ecc/bw6-633/twistededwards", "ecc/bw6-761/twistededwards"]


def edwards_params(pkg):
    c = pkg.split("/")[1]
    base = "github.com/consensys/gnark-crypto/ecc/" + c
    return dict(FrPath=base + "/fr", FrSuffix=c + "/fr", EdPath="github.com/consensys/gnark-crypto/" + pkg)


# stream decoder for slices of G1 points (G2 slices: the same harness runs for tens of minutes with solver timeouts: not registered)
C07_JOBS += [Job("ecc/" + c, ["C07/pointcodec.go.tmpl", "C07/stream.go.tmpl"], params=codec_params(c, "G1Affine"), jobs=4,
                 label="ecc/%s:streamG1" % c, only="H_G1Affine_Stream", tier="quick" if c in ("bn254", "grumpkin", "stark-curve") else "thorough")
             for c in ["bn254", "bls12-381", "grumpkin", "stark-curve"]]
C07_JOBS += [Job(pkg, ["C07/edwards.go.tmpl"], params=edwards_params(pkg), jobs=4) for pkg in EDWARDS]

# G2 over E4 (bls24-*): four base-field coordinates per tower element make the generic-flag harnesses run for tens of
# minutes with some solver timeouts; only the patterns that run clean are registered for those two curves
E4_ONLY = "H_G2Affine_(Decode_(Sub|NoSub)_(Compressed|Raw)_(001|010|011|110|111)|Decode_Short|RoundTrip_Infinity)"
C07_JOBS += [Job("ecc/" + c, ["C07/pointcodec.go.tmpl"], params=codec_params(c, "G2Affine"), jobs=8, goarch="arm64" if G2_COORD[c] else "",
                 only=E4_ONLY if G2_COORD[c] == "E4" else None,
                 skip="Decode_Sub_(Longer|Between|Raw_000)" if c == "bls12-377" else None) for c in PAIRING_CURVES]

PROPS["C07"] = dict(
    jobs=C07_JOBS,
    level_text="Proof over all byte strings (no bound on content; one harness per flag pattern and length class) for the single-point "
               "codecs of G1 (9 curves incl. grumpkin, stark-curve) and G2 (7 curves): setBytes accepts only canonical coordinates "
               "(< p), valid flag patterns and all-zero infinity payloads; an accepted point satisfies the curve equation and the subgroup "
               "predicate when requested; the consumed length is one of the two sizes and within the buffer; every accepted string "
               "re-encodes (Bytes / RawBytes) to the identical bytes, except the all-zero raw string for infinity; short buffers are "
               "rejected without panic; every subgroup point round-trips through both encodings. Stream decoder for slices of G1 "
               "points (bn254, grumpkin, stark-curve quick; bls12-381 thorough; the other curves ran clean once but take 5-15 min each and are not registered): a length-prefixed stream of 2 compressed or "
               "raw items read through a short-read reader decodes exactly when every item decodes on its own, to the same points, "
               "without keeping stale destination data, with BytesRead = stream length; every truncation is an error. Twisted "
               "Edwards points (8 packages): accepted strings have a canonical Y and re-encode to themselves.",
    level_note="Base-field elements are interpreted by their canonical integer value: byte conversions, comparisons with the modulus, "
               "lexicographic sign selection and negation are exact; products are uninterpreted modulo associativity, commutativity and "
               "sign; square roots obey their contract (a root of a square squares back to it, non-squares are rejected); subgroup "
               "membership is an opaque predicate implying the curve equation. Counterexamples are replayed against the real decoder.",
    bounds="flag patterns: all 4 (bn254-style) or 8 (bls-style); buffer lengths: 0, 1, compressed-1, compressed, raw-1, raw, raw+1; "
           "G2 over E4 (bls24-315/317): only invalid-flag, infinity and short-buffer patterns",
    outside="streaming Encoder and the other Decoder cases (single values, slices of G2 points, vectors, nested vectors, integers), "
            "slices longer than 2, goroutine schedules of the parallel Y recovery, GT/E12 codecs, kzg/pedersen/domain/polynomial serialisation; curve equation for compressed G2 "
            "strings over an extension (follows from the square-root contract, not replayable in this interpretation); the subgroup "
            "test itself (C02/C03 territory)",
    assumptions=["Element.Sqrt / E2.Sqrt / E4.Sqrt / Legendre satisfy their contracts", "IsInSubGroup is a function of the coordinates that implies the curve equation and excludes order-2 points",
                 "field products: uninterpreted, associative-commutative, sign-compatible, zero iff a factor is zero"],
)


def ecdsa_params(c):
    base = "github.com/consensys/gnark-crypto/ecc/" + c
    # messages longer than the scalar size exercise the truncation and shift of HashToInt; the proof goes through only where
    # the scalar field fills whole bytes (no shift): secp256k1
    return dict(CurvePath=base, FpPath=base + "/fp", FrPath=base + "/fr", FpSuffix=c + "/fp", LongMsg=1 if c == "secp256k1" else 0)


PROPS["C12"] = dict(
    jobs=[Job("ecc/%s/ecdsa" % c, ["C12/ecdsa.go.tmpl"], params=ecdsa_params(c), jobs=4, goarch="arm64") for c in CURVES] +
         [Job(pkg + "/eddsa", ["C12/eddsa.go.tmpl"], params=edwards_params(pkg), jobs=4) for pkg in EDWARDS],
    level_text="Proof over all byte strings for ECDSA on the 10 curves: Signature.SetBytes accepts exactly the 2*sizeFr-byte strings "
               "with 0 < r, s < order and round-trips them; public and private keys round-trip with correct consumed lengths and "
               "short buffers are rejected; PublicKey.Verify (hFunc = nil, messages of 0, 16 and on secp256k1 32 and sizeFr+3 bytes) returns an error "
               "for malformed signatures and otherwise accepts exactly when x([m/s]G + [r/s]A) mod n = r, with m the left-most "
               "bits of the message. EdDSA (8 twisted-Edwards instances incl. bandersnatch): an accepted signature has a canonical "
               "on-curve R, 0 < S < order and re-encodes to itself; accepted public keys are canonical on-curve points that re-encode "
               "to themselves; private keys round-trip with the right consumed length; short, long and wrong-size buffers are rejected "
               "or truncated without panic.",
    level_note="The group is abstract: the affine x-coordinate of [u1]G + [u2]A and whether that point is the identity are "
               "uninterpreted functions of (u1 mod n, u2 mod n, A); the modular inverse is an uninterpreted function of the residue. "
               "Scalar arithmetic, range checks, truncation and all byte handling are exact. The specification side is written "
               "independently in the harness with math/big.",
    bounds="message lengths 0, 16 (all curves), 32 and sizeFr+3 (secp256k1 only: where the scalar field does not fill whole bytes the shifted truncation makes some queries time out); signature lengths sizeSignature-1, sizeSignature, sizeSignature+1; hFunc = nil",
    outside="signing (nonce derivation through AES-CTR/SHA-512), sign-then-verify completeness and public-key recovery (need the group "
            "law and field inversion identities), hashing with SHA-256/MiMC inside Verify, EdDSA (all instances)",
    assumptions=["JointScalarMultiplicationBase computes [u1]G + [u2]A depending only on the scalars modulo the group order (C03)",
                 "big.Int.ModInverse modulo a prime is a function of the residue"],
)


def fft_params(frpath, frsuffix, N, sizes):
    hs = []
    for n in sizes:
        for dec in ("DIF", "DIT"):
            for coset in (False, True):
                for pre in (True, False):
                    nm = "n%d_%s_%s_%s" % (n, dec, "Coset" if coset else "Plain", "Tables" if pre else "NoTables")
                    hs.append("func H_FFT_%s() { vCheckFFT(%d, %s, %s, %s) }" % (nm, n, dec, str(coset).lower(), str(pre).lower()))
                    hs.append("func H_Inverse_%s() { vCheckInverse(%d, %s, %s, %s) }" % (nm, n, dec, str(coset).lower(), str(pre).lower()))
        hs.append("func H_BitReverse_n%d() { vCheckBitReverse(%d) }" % (n, n))
    return dict(FrPath="github.com/consensys/gnark-crypto/" + frpath, FrSuffix=frsuffix, N=N, D=N // 2, Harnesses="\n".join(hs))


FFT_FIELDS = [("ecc/%s/fr" % c, "%s/fr" % c) for c in PAIRING_CURVES] + [("field/goldilocks", "field/goldilocks"), ("field/koalabear", "field/koalabear"), ("field/babybear", "field/babybear")]

PROPS["C10"] = dict(
    jobs=[Job(fp + "/fft", ["C10/fft.go.tmpl"], params=fft_params(fp, fs, 8, [1, 2, 4, 8]), jobs=8, label=fp + "/fft:N8") for fp, fs in FFT_FIELDS] +
         [Job(fp + "/fft", ["C10/fft.go.tmpl"], params=fft_params(fp, fs, 32, [16, 32]), jobs=8, label=fp + "/fft:N32") for fp, fs in FFT_FIELDS] +
         [Job(fp + "/fft", ["C10/fft.go.tmpl"], params=fft_params(fp, fs, 64, [64]), jobs=8, label=fp + "/fft:N64", tier="thorough",
              skip="H_Inverse_n64_.*_Coset") for fp, fs in FFT_FIELDS[:3]],
    level_text="Bounded proof (domain sizes 1..32 in the quick tier, 64 in the thorough tier; all input vectors) that Domain.FFT returns the "
               "evaluations of the input polynomial on the domain or on the shifted coset, with the documented bit-reversed ordering, and "
               "that FFTInverse undoes it, for both decimations, with and without coset (arbitrary non-zero shift), with and without "
               "precomputed tables, 10 fields (7 scalar fields, goldilocks, koalabear, babybear); BitReverse is the bit-reversal "
               "permutation and an involution. Sizes 16 and 32 exercise the on-the-fly twiddle path and the unrolled 32-point kernels.",
    level_note="Field elements are interpreted in the ring Q(a_j, s)[w]/(w^(N/2) + 1): w is a formal primitive N-th root of unity, the "
               "inputs a_j and the coset shift s are symbolic scalars, every element is its vector of N/2 real coefficient terms. "
               "Add/Sub/Mul are exact ring operations (negacyclic convolution); inversion is defined for monomials c*w^k. The asserted "
               "equalities are identities of linear forms in the a_j (polynomial in s) decided by the solver; they transfer to every "
               "field containing a primitive N-th root of unity through the ring homomorphism w -> that root. fr.Generator is stubbed "
               "by 'returns w^(N/size)' (that Generator returns a primitive root is an assumption). Counterexamples replay natively in the real field.",
    bounds="N in {1,2,4,8,16,32} (quick), 64 (thorough, bn254/bls12-377/bls12-381; coset inverse excluded at 64: solver timeout); nbTasks = 1",
    outside="sizes above 64 (including the 256-point kernels), nbTasks > 1 and every goroutine schedule (the executor runs spawned goroutines "
            "at the spawn point), AVX-512 kernels of koalabear/babybear (purego build is analysed), Domain serialisation, that fr.Generator returns a primitive root",
    assumptions=["fr.Generator(m) returns a primitive root of unity of order NextPowerOfTwo(m)", "sequential schedule of goroutines", "purego build tag"],
)


def kzg_params(c):
    base = "github.com/consensys/gnark-crypto/ecc/" + c
    return dict(CurvePath=base, CurveSuffix="ecc/" + c, FrPath=base + "/fr", FrSuffix=c + "/fr",
                LinesLen="len(curve.LoopCounter)" if c == "bn254" else "len(curve.LoopCounter) - 1")


PROPS["C11"] = dict(
    jobs=[Job("ecc/%s/kzg" % c, ["C11/kzg.go.tmpl"], params=kzg_params(c), jobs=8, goarch="arm64") for c in PAIRING_CURVES] +
         [Job("ecc/%s/kzg" % c, ["C11/gamma.go.tmpl"], params=dict(kzg_params(c), FpPath="github.com/consensys/gnark-crypto/ecc/%s/fp" % c, FpSuffix=c + "/fp"),
              jobs=2, goarch="arm64", label="ecc/%s/kzg:gamma" % c) for c in PAIRING_CURVES],
    level_text="Proof (all scalars; polynomial lengths 1..4, batch sizes 1..3) for KZG on the 7 pairing curves: Verify accepts a tuple "
               "([c]G1, [h]G1, v, z) exactly when c - v = (tau - z) h; BatchVerifySinglePoint accepts exactly when "
               "sum gamma^i (c_i - v_i) = (tau - z) h; BatchVerifyMultiPoints accepts every batch of true claims, decides a batch of one "
               "exactly and reports size mismatches; Commit/Open succeed on every polynomial that fits the SRS (including constants), "
               "leave it unmodified, return p(z) as claimed value, and the resulting proof verifies; honest batched openings with mixed "
               "polynomial sizes verify; size errors are reported; the Fiat-Shamir challenge of the batched protocol absorbs, in order, the label, "
               "the point, every digest, every claimed value and the caller's transcript data (byte stream fed to the hash, exact).",
    level_note="The pairing group is abstract: a G1 element is its discrete logarithm (interpretation cyc1), scalars are reals; the "
               "fixed-argument pairing product check against (G2, [tau]G2) is the test log(P0) + tau*log(P1) = 0 (bilinearity and "
               "non-degeneracy are C05's subject); scalar multiplications and multi-exponentiations are their specifications (C03, "
               "C04). For the acceptance conditions the value tested by the pairing check is shown equal, as a polynomial in all "
               "unknowns, to the relation (up to sign): such identities transfer from the reals to every field. The Fiat-Shamir "
               "challenge of the batched protocol is an arbitrary scalar shared by prover and verifier (C15). Counterexamples are "
               "replayed with the real curve, a real SRS for the model's trapdoor and the real pairing.",
    bounds="polynomial length <= 4, SRS size <= 4, batches of <= 3",
    outside="soundness of BatchVerifyMultiPoints against a false claim (probabilistic in the verifier's random numbers; only the "
            "accepted relation for one claim and completeness are shown), serialisation of SRS/proofs, MPC setup, reuse of a verifying "
            "key across verifications (C18), larger polynomials (the identity p(tau) - p(z) = (tau - z) h(tau) is size-generic but checked up to 4)",
    assumptions=["pairing bilinear and non-degenerate; lines precomputed for (G2, [tau]G2)", "MultiExp, ScalarMultiplication, JointScalarMultiplication compute their specifications",
                 "real-closed-field surrogate for F_r: polynomial identities transfer", "deriveGamma is a function of its inputs"],
)


def pairing_params(c):
    # FinalExponentiation(x, y, ...) = FinalExponentiation(x*y*...) (template block FinalExp) is not registered: its obligations are
    # discharged on bn254 but the reachability witness of the harness is solver-flaky (unknown on some runs), elsewhere the
    # merged easy-part branch makes the two sides syntactically different and the solver does not finish
    return dict(curve_params(c), LinesLen="len(LoopCounter)" if c == "bn254" else "len(LoopCounter) - 1", FinalExp=0)


VEC_FIELDS = [("ecc/%s/fr" % c, "%s/fr" % c) for c in PAIRING_CURVES] + [("ecc/%s/fp" % c, "%s/fp" % c) for c in PAIRING_CURVES] + \
             [("field/goldilocks", "field/goldilocks"), ("field/koalabear", "field/koalabear"), ("field/babybear", "field/babybear")]

PROPS["C18"] = dict(
    jobs=[Job("ecc/" + c, ["C05/pairing_glue.go.tmpl", "C18/pairing_frame.go.tmpl"], params=pairing_params(c), jobs=4, goarch="arm64", label="ecc/%s:pairingframe" % c, only="H_Frame") for c in PAIRING_CURVES] +
         [Job(m, ["C14/mimc_round.go.tmpl", "C18/mimc_frame.go.tmpl"], params=dict(FrPath="github.com/consensys/gnark-crypto/" + m[:-5], FrSuffix=m[4:-5], MimcD=MIMC_D.get(m, 5)),
              label=m + ":frame", only="H_Frame") for m in MIMC] +
         [Job(fp, ["C18/vector_frame.go.tmpl"], params=dict(ElemSuffix=fs), jobs=4, label=fp + ":vector") for fp, fs in VEC_FIELDS] +
         [Job(fp + "/fft", ["C10/fft.go.tmpl", "C18/fft_frame.go.tmpl"], params=fft_params(fp, fs, 8, []), jobs=4, label=fp + "/fft:frame", only="H_Frame") for fp, fs in FFT_FIELDS] +
         [Job("ecc/%s/kzg" % c, ["C11/kzg.go.tmpl", "C18/kzg_frame.go.tmpl"], params=kzg_params(c), jobs=4, goarch="arm64", label="ecc/%s/kzg:frame" % c, only="H_Frame") for c in PAIRING_CURVES],
    level_text="Proof of frame conditions and repeatability (sequential semantics) for shared read-only objects: FFT domains with all "
               "their tables during FFT/FFTInverse (10 fields, both decimations, coset, tables on/off); KZG proving and verifying keys, "
               "digests, proofs, points and polynomials during Commit/Open/Verify/BatchOpenSinglePoint/BatchVerifySinglePoint/"
               "BatchVerifyMultiPoints (7 curves); precomputed pairing lines during MillerLoopFixedQ (7 curves); operands of the vector "
               "operations (17 fields, portable path); package-level state of MiMC after its lazy initialisation and the data written to "
               "the hasher (8 curves). Each harness marks the shared objects read-only (any store is a violated obligation) and asserts "
               "that repeating the call returns the same result.",
    level_note="Interpretations as in C10 (ring), C11 (abstract pairing group), C05/C14 (uninterpreted products). The executor gives Go "
               "one sequential schedule (goroutines run at their spawn point): absence of writes to shared inputs is the "
               "schedule-independent sufficient condition for the concurrent part of the property; data races on internal scratch "
               "state, GOMAXPROCS and timing are not examined.",
    bounds="FFT N = 8; KZG polynomial length <= 3; one pair for the Miller loop; vectors of length 0, 1, 5; two MiMC blocks",
    outside="goroutine interleavings, data-race freedom, GOMAXPROCS/task-count independence, sync.Pool contents, MSM and batch conversions, "
            "Poseidon2/SIS parameters, assembly paths",
    assumptions=["sequential schedule", "purego / arm64 (portable) code paths"],
)


PROPS["C05"] = dict(
    jobs=[Job("ecc/" + c, ["C05/pairing_glue.go.tmpl"], params=pairing_params(c), jobs=4, goarch="arm64") for c in PAIRING_CURVES],
    level_text="Proof (all coordinates) of the glue of the pairing API on the 7 pairing curves: a pair containing a point at infinity, in "
               "G1 or G2 and at any position, contributes the identity to MillerLoop (the loop on the remaining pairs performs "
               "the same field operations; only-infinity inputs give one); size mismatches (either argument longer) and empty inputs are errors "
               "for MillerLoop, Pair, PairingCheck, MillerLoopFixedQ, PairFixedQ, PairingCheckFixedQ.",
    level_note="Base-field elements are interpreted by canonical values with uninterpreted products; each claim is an equality between "
               "two executions of the real Miller loop / final exponentiation (66-190 iterations, whole tower arithmetic executed) that "
               "holds when both perform the same operations on the same data, hence for every field. Nothing is claimed about the "
               "value computed: bilinearity, non-degeneracy and the equality of projective and fixed-argument (affine lines) variants "
               "after the final exponentiation are mathematical facts about the formulas that this technique does not reach.",
    bounds="k <= 2 pairs; arbitrary coordinates (points are not required to be on the curve: the claims hold for all inputs)",
    outside="bilinearity, non-degeneracy, exact order r, equality of MillerLoop and MillerLoopFixedQ after final exponentiation, Pair = FinalExponentiation o MillerLoop and FinalExponentiation(x, y) = FinalExponentiation(x*y) (symbolic final exponentiations: solver does not finish reliably), infinity in the fixed-argument loop, multi-pairing with k > 2",
    assumptions=["uninterpreted field products (AC, sign, zero)", "sequential execution"],
)
