import z3, time, sys
fields={
 'bn254fr':([4891460686036598785,2896914383306846353,13281191951274694749,3486998266802970665],14042775128853446655),
}
q_limbs,qInvNeg=fields['bn254fr']
N=4
q=sum(l<<(64*i) for i,l in enumerate(q_limbs))
B=1<<64
s=z3.SolverFor('QF_LIA')
cnt=[0]
def fresh(n,lo,hi):
    cnt[0]+=1
    v=z3.Int(f'{n}{cnt[0]}'); s.add(v>=lo,v<=hi); return v
def split(e,hibound):
    hi=fresh('h',0,hibound); lo=fresh('l',0,B-1)
    s.add(e==hi*B+lo); return hi,lo
def mulc(a,c): return split(a*c, B-1)
def add(a,b,c):
    hi,lo=split(a+b+c,2); return lo,hi
prods={}
def mul(i,j):
    if (i,j) not in prods: prods[(i,j)]=(fresh('ph',0,B-2),fresh('pl',0,B-1))
    return prods[(i,j)]
ms=[]
def reduce_part(t0,t1,t2,t3,c2):
    _,m=split(qInvNeg*t0,B); ms.append(m)
    u0,c1=mulc(m,q_limbs[0]); _,c0=add(t0,c1,0)
    u1,c1=mulc(m,q_limbs[1]); t0,c0=add(t1,c1,c0)
    u2,c1=mulc(m,q_limbs[2]); t1,c0=add(t2,c1,c0)
    u3,c1=mulc(m,q_limbs[3])
    t2,c0=add(0,c1,c0); u3,_=add(u3,0,c0)
    t0,c0=add(u0,t0,0); t1,c0=add(u1,t1,c0); t2,c0=add(u2,t2,c0); c2,_=add(c2,0,c0)
    t2,c0=add(t3,t2,0); t3,_=add(u3,c2,c0)
    return t0,t1,t2,t3
x=[fresh('x',0,B-1) for i in range(N)]
y=[fresh('y',0,B-1) for i in range(N)]
u0,t0=mul(0,0);u1,t1=mul(0,1);u2,t2=mul(0,2);u3,t3=mul(0,3)
t1,c0=add(u0,t1,0);t2,c0=add(u1,t2,c0);t3,c0=add(u2,t3,c0);c2,_=add(u3,0,c0)
t0,t1,t2,t3=reduce_part(t0,t1,t2,t3,c2)
for r in range(1,N):
    u0,c1=mul(r,0);t0,c0=add(c1,t0,0)
    u1,c1=mul(r,1);t1,c0=add(c1,t1,c0)
    u2,c1=mul(r,2);t2,c0=add(c1,t2,c0)
    u3,c1=mul(r,3);t3,c0=add(c1,t3,c0)
    c2,_=add(0,0,c0)
    t1,c0=add(u0,t1,0);t2,c0=add(u1,t2,c0);t3,c0=add(u2,t3,c0);c2,_=add(u3,c2,c0)
    t0,t1,t2,t3=reduce_part(t0,t1,t2,t3,c2)
def val(ls): return sum(l*(B**i) for i,l in enumerate(ls))
X=val(x);Y=val(y)
zpre=val([t0,t1,t2,t3])
z=z3.If(zpre>=q,zpre-q,zpre)
SP=sum((prods[(i,j)][0]*B+prods[(i,j)][1])*(B**(i+j)) for i in range(N) for j in range(N))
s.add(X<q,Y<q)
mode=sys.argv[1]
if mode=='agg':
    s.add(SP<=(q-1)*(q-1))
elif mode=='row':
    # per-row aggregate bound: x_i * Y <= (B-1)(q-1)
    for i in range(N):
        s.add(sum((prods[(i,j)][0]*B+prods[(i,j)][1])*(B**j) for j in range(N))<=(B-1)*(q-1))
M=val(ms)
goal=z3.And(zpre*(B**N)==SP+M*q, z<q, z>=0)
s.add(z3.Not(goal))
open('mont_int_full_'+mode+'.smt2','w').write(s.to_smt2())
t=time.time(); s.set('timeout',int(sys.argv[2])*1000); print(mode,s.check(),time.time()-t)
