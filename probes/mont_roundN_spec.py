import z3, time, sys, re
path=sys.argv[1]
src=open(path).read()
ql=[int(x) for x in re.findall(r'^\tq\d+\s*=\s*(\d+)\s*$',src,re.M)]
qInvNeg=int(re.search(r'const qInvNeg(?: uint64)? = (\d+)',src).group(1))
N=len(ql); q=sum(l<<(64*i) for i,l in enumerate(ql)); B=1<<64
print('N',N,'bits',q.bit_length())
s=z3.SolverFor('QF_LIA'); cnt=[0]
def fresh(n,lo,hi):
    cnt[0]+=1; v=z3.Int(f'{n}{cnt[0]}'); s.add(v>=lo,v<=hi); return v
def split(e,hb):
    hi=fresh('h',0,hb); lo=fresh('l',0,B-1); s.add(e==hi*B+lo); return hi,lo
def mulc(a,c): return split(a*c,B-1)
def add(a,b,c):
    hi,lo=split(a+b+c,2); return lo,hi
T=[fresh('t',0,B-1) for i in range(N)]
PH=[fresh('ph',0,B-2) for i in range(N)]; PL=[fresh('pl',0,B-1) for i in range(N)]
t=list(T); u=[None]*N
c0=0
for j in range(N):
    u[j],c1=PH[j],PL[j]; t[j],c0=add(c1,t[j],c0)
c2,_=add(0,0,c0)
c0=0
for j in range(1,N):
    t[j],c0=add(u[j-1],t[j],c0)
c2,_=add(u[N-1],c2,c0)
_,m=split(qInvNeg*t[0],B)
u[0],c1=mulc(m,ql[0]); _,c0=add(t[0],c1,0)
for j in range(1,N-1):
    u[j],c1=mulc(m,ql[j]); t[j-1],c0=add(t[j],c1,c0)
u[N-1],c1=mulc(m,ql[N-1])
t[N-2],c0=add(0,c1,c0); u[N-1],_=add(u[N-1],0,c0)
t[0],c0=add(u[0],t[0],0)
for j in range(1,N-1): t[j],c0=add(u[j],t[j],c0)
c2,_=add(c2,0,c0)
t[N-2],c0=add(t[N-1],t[N-2],0); t[N-1],_=add(u[N-1],c2,c0)
def val(ls): return sum(l*(B**i) for i,l in enumerate(ls))
Tin=val(T);Tout=val(t)
SP=sum((PH[j]*B+PL[j])*(B**j) for j in range(N))
s.add(Tin<2*q); s.add(SP<=(B-1)*(q-1))
qinv=(-pow(q,-1,B))%B
lo0=fresh('w',0,B-1); kk=fresh("k",0,B**(N+2)); s.add(Tin+SP==kk*B+lo0)
_,mspec=split(lo0*qinv,B)
s.add(z3.Not(z3.And(Tout*B==Tin+SP+mspec*q, Tout<2*q)))
open(f'round{N}.smt2','w').write(s.to_smt2())
t0=time.time(); s.set('timeout',300000); print(s.check(),time.time()-t0)
