import z3, time, sys
q_limbs=[4891460686036598785,2896914383306846353,13281191951274694749,3486998266802970665]
qInvNeg=14042775128853446655
N=4
q=sum(l<<(64*i) for i,l in enumerate(q_limbs))
B=1<<64
s=z3.SolverFor('QF_LIA')
cnt=[0]
def fresh(n,lo,hi):
    cnt[0]+=1
    v=z3.Int(f'{n}{cnt[0]}'); s.add(v>=lo,v<=hi); return v
def split(e,hibound):
    # e = hi*B+lo
    hi=fresh('h',0,hibound); lo=fresh('l',0,B-1)
    s.add(e==hi*B+lo); return hi,lo
def mulc(a,c): return split(a*c, B-1)
def add(a,b,c):
    hi,lo=split(a+b+c,2); return lo,hi
ms=[]
def reduce_part(t0,t1,t2,t3,c2):
    _,m=split(qInvNeg*t0,B); ms.append(m)
    u0,c1=mulc(m,q_limbs[0]); _,c0=add(t0,c1,0)
    u1,c1=mulc(m,q_limbs[1]); t0,c0=add(t1,c1,c0)
    u2,c1=mulc(m,q_limbs[2]); t1,c0=add(t2,c1,c0)
    u3,c1=mulc(m,q_limbs[3])
    t2,c0=add(0,c1,c0); u3,_=add(u3,0,c0)
    t0,c0=add(u0,t0,0); t1,c0=add(u1,t1,c0); t2,c0=add(u2,t2,c0); c2,_=add(c2,0,c0)
    t2,c0=add(t3,t2,0); t3,_=add(u3,c2,c0)
    return t0,t1,t2,t3
T=[fresh('t',0,B-1) for i in range(N)]
PH=[fresh('ph',0,B-2) for i in range(N)]
PL=[fresh('pl',0,B-1) for i in range(N)]
t0,t1,t2,t3=T
u0,c1=PH[0],PL[0];t0,c0=add(c1,t0,0)
u1,c1=PH[1],PL[1];t1,c0=add(c1,t1,c0)
u2,c1=PH[2],PL[2];t2,c0=add(c1,t2,c0)
u3,c1=PH[3],PL[3];t3,c0=add(c1,t3,c0)
c2,_=add(0,0,c0)
t1,c0=add(u0,t1,0);t2,c0=add(u1,t2,c0);t3,c0=add(u2,t3,c0);c2,_=add(u3,c2,c0)
t0,t1,t2,t3=reduce_part(t0,t1,t2,t3,c2)
def val(ls): return sum(l*(B**i) for i,l in enumerate(ls))
Tin=val(T); Tout=val([t0,t1,t2,t3])
SP=sum((PH[j]*B+PL[j])*(B**j) for j in range(N))
s.add(Tin<2*q)
s.add(SP<=(B-1)*(q-1))
goal=z3.And(Tout*B == Tin+SP+ms[0]*q, Tout<2*q)
s.add(z3.Not(goal))
open('mont_int.smt2','w').write(s.to_smt2())
t=time.time(); s.set('timeout',int(sys.argv[1])*1000); print(s.check(),time.time()-t)
