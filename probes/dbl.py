import z3, time
# E2 = R[u]/(u^2+1) as pairs
class E2:
    def __init__(s,a,b): s.a=a; s.b=b
    def __add__(s,o): return E2(s.a+o.a,s.b+o.b)
    def __sub__(s,o): return E2(s.a-o.a,s.b-o.b)
    def __neg__(s): return E2(-s.a,-s.b)
    def __mul__(s,o):
        if not isinstance(o,E2): return E2(s.a*o,s.b*o)
        return E2(s.a*o.a-s.b*o.b, s.a*o.b+s.b*o.a)
    def sq(s): return s*s
    def dbl(s): return s+s
    def halve(s): return E2(s.a/2,s.b/2)
    def inv(s):
        n=s.a*s.a+s.b*s.b; return E2(s.a/n,-s.b/n)
    def eq(s,o): return z3.And(s.a==o.a,s.b==o.b)
    def nz(s): return z3.Or(s.a!=0,s.b!=0)
def var(n): return E2(z3.Real(n+'0'),z3.Real(n+'1'))
x,y,z=var('x'),var('y'),var('z')
# twist coefficient b' defined by the point: y^2 z = x^3 + b' z^3
zi=z.inv()
bt=(y.sq()*z - x.sq()*x)*zi*zi*zi
# code doubleStep
A=(x*y).halve(); B=y.sq(); C=z.sq(); D=C.dbl()+C; E=D*bt   # MulBybTwistCurveCoeff summarised as *b'
F=E.dbl()+E; G=(B+F).halve(); H=(y+z).sq()-(B+C); I=E-B; J=x.sq(); EE=E.sq(); K=EE.dbl()+EE
X3=(B-F)*A; Y3=G.sq()-K; Z3=B*H
r0=-H; r1=J.dbl()+J; r2=I
# spec: affine doubling of (xa,ya)=(x/z,y/z): lam=3xa^2/(2ya)
xa=x*zi; ya=y*zi
lam=(xa.sq()*3)*(ya.dbl().inv())
x3=lam.sq()-xa.dbl(); y3=lam*(xa-x3)-ya
s=z3.Solver()
s.add(z.nz(), y.nz())
# projective equality: X3 = x3*Z3, Y3=y3*Z3, Z3 != 0 ; line: tangent at T evaluated as  r0*yP + r1*xP*w + r2*w^3 ~ (yP - lam xP + (lam xa - ya)) up to E2 factor:
# proportionality: (r0, r1, r2) ∝ (1, -lam, lam*xa-ya)
l0,l1,l2=E2(z3.RealVal(1),z3.RealVal(0)),-lam,lam*xa-ya
goal=z3.And(X3.eq(x3*Z3),Y3.eq(y3*Z3),Z3.nz(),(r1*l0).eq(r0*l1),(r2*l0).eq(r0*l2))
s.add(z3.Not(goal))
pass
goals={'X':X3.eq(x3*Z3),'Y':Y3.eq(y3*Z3),'r1':(r1*l0).eq(r0*l1),'r2':(r2*l0).eq(r0*l2),'Z3nz':Z3.nz()}
for k,g in goals.items():
    s=z3.Solver(); s.add(z.nz(),y.nz()); s.add(z3.Not(g))
    t=time.time(); s.set('timeout',60000); print(k,s.check(),round(time.time()-t,2),flush=True)
