import z3, time
x,y,z=z3.Reals('x y z')
def sq(a): return a*a
bt=(sq(y)*z - sq(x)*x)/(z*z*z)
A=(x*y)/2; B=sq(y); C=sq(z); D=2*C+C; E=D*bt
F=2*E+E; G=(B+F)/2; H=sq(y+z)-(B+C); I=E-B; J=sq(x); EE=sq(E); K=2*EE+EE
X3=(B-F)*A; Y3=sq(G)-K; Z3=B*H
r0=-H; r1=2*J+J; r2=I
xa=x/z; ya=y/z
lam=(3*sq(xa))/(2*ya)
x3=sq(lam)-2*xa; y3=lam*(xa-x3)-ya
l0,l1,l2=1,-lam,lam*xa-ya
goals={'X':X3==x3*Z3,'Y':Y3==y3*Z3,'r1':r1*l0==r0*l1,'r2':r2*l0==r0*l2,'Z3nz':Z3!=0}
for k,g in goals.items():
    s=z3.Solver(); s.add(z!=0,y!=0); s.add(z3.Not(g))
    t=time.time(); s.set('timeout',60000); print(k,s.check(),round(time.time()-t,2),flush=True)
s=z3.Solver(); s.add(z!=0,y!=0); s.add(z3.Not(z3.And(*goals.values())))
t=time.time(); s.set('timeout',60000); print('all',s.check(),round(time.time()-t,2),flush=True)
