import z3, time, sys
c=int(sys.argv[1]); FRBITS=254; LIMBS=4
r=21888242871839275222246405745257275088548364400416034343698204186575808495617
nb=(FRBITS+c-1)//c
B=1<<64
sc=[z3.Int(f's{i}') for i in range(LIMBS)]
s=z3.SolverFor('QF_LIA')
for v in sc: s.add(v>=0,v<B)
S=sum(v*(B**i) for i,v in enumerate(sc))
mx=(1<<(c-1))-1; cdiv=(64%c)==0
carry=0; total=0; cons=[]
for ch in range(nb):
    jc=ch*c; idx=jc//64; sh=jc-idx*64
    width=min(c,64-sh)   # (mask<<sh) truncated to 64 bits
    mws=(not cdiv) and sh>(64-c) and idx<LIMBS-1
    digit=carry+(sc[idx]/(1<<sh))%(1<<width)
    if mws:
        nbh=sh-(64-c); shh=c-nbh
        digit=digit+(sc[idx+1]%(1<<nbh))*(1<<shh)
    if ch<nb-1:
        big=digit>mx
        d2=z3.If(big,digit-(1<<c),digit)
        carry=z3.If(big,1,0)
        bits=z3.If(d2==0,0,z3.If(d2>0,d2*2,(-d2-1)*2+1))
        cons.append(z3.And(bits>=0,bits<65536))
    else:
        d2=digit; bits=digit*2
        cons.append(z3.And(bits>=0,bits<65536))
    neg=(bits%2==1)
    mag=z3.If(bits==0,0,z3.If(neg,bits/2+1,bits/2))
    val=z3.If(neg,-mag,mag)
    total=total+val*(1<<(ch*c))
    nbuckets=1<<(c-1)
    if ch<nb-1:
        cons.append(z3.Implies(bits!=0, z3.If(neg,bits/2,bits/2-1)<nbuckets))
s.add(S<r)
s.add(z3.Not(z3.And(total==S,*cons)))
t=time.time(); s.set('timeout',300000); print('c',c,s.check(),time.time()-t)
