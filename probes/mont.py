import z3, time, sys
q_limbs=[4891460686036598785,2896914383306846353,13281191951274694749,3486998266802970665]
qInvNeg=14042775128853446655
N=4
q=sum(l<<(64*i) for i,l in enumerate(q_limbs))
R=1<<(64*N)
BV=z3.BitVecSort(64)
umul=z3.Function('umul',BV,BV,z3.BitVecSort(128))
prods={}
def mul(a,b):
    # returns hi,lo
    if z3.is_bv_value(b) or z3.is_bv_value(a):
        p=z3.ZeroExt(64,a)*z3.ZeroExt(64,b)
    else:
        p=umul(a,b); prods[(a,b)]=p
    return z3.Extract(127,64,p), z3.Extract(63,0,p)
def add(a,b,c):
    s=z3.ZeroExt(1,a)+z3.ZeroExt(1,b)+z3.ZeroExt(1,c)
    return z3.Extract(63,0,s), z3.ZeroExt(63,z3.Extract(64,64,s))
def bv(v): return z3.BitVecVal(v,64)
x=[z3.BitVec(f'x{i}',64) for i in range(N)]
y=[z3.BitVec(f'y{i}',64) for i in range(N)]
Z=bv(0)
ms=[]
def reduce_part(t0,t1,t2,t3,c2):
    m=bv(qInvNeg)*t0; ms.append(m)
    u0,c1=mul(m,bv(q_limbs[0])); _,c0=add(t0,c1,Z)
    u1,c1=mul(m,bv(q_limbs[1])); t0,c0=add(t1,c1,c0)
    u2,c1=mul(m,bv(q_limbs[2])); t1,c0=add(t2,c1,c0)
    u3,c1=mul(m,bv(q_limbs[3]))
    t2,c0=add(Z,c1,c0); u3,_=add(u3,Z,c0)
    t0,c0=add(u0,t0,Z); t1,c0=add(u1,t1,c0); t2,c0=add(u2,t2,c0); c2,_=add(c2,Z,c0)
    t2,c0=add(t3,t2,Z); t3,_=add(u3,c2,c0)
    return t0,t1,t2,t3
# round 0
v=x[0]
u0,t0=mul(v,y[0]);u1,t1=mul(v,y[1]);u2,t2=mul(v,y[2]);u3,t3=mul(v,y[3])
t1,c0=add(u0,t1,Z);t2,c0=add(u1,t2,c0);t3,c0=add(u2,t3,c0);c2,_=add(u3,Z,c0)
t0,t1,t2,t3=reduce_part(t0,t1,t2,t3,c2)
for r in range(1,N):
    v=x[r]
    u0,c1=mul(v,y[0]);t0,c0=add(c1,t0,Z)
    u1,c1=mul(v,y[1]);t1,c0=add(c1,t1,c0)
    u2,c1=mul(v,y[2]);t2,c0=add(c1,t2,c0)
    u3,c1=mul(v,y[3]);t3,c0=add(c1,t3,c0)
    c2,_=add(Z,Z,c0)
    t1,c0=add(u0,t1,Z);t2,c0=add(u1,t2,c0);t3,c0=add(u2,t3,c0);c2,_=add(u3,c2,c0)
    t0,t1,t2,t3=reduce_part(t0,t1,t2,t3,c2)
W=64*N*2+64
def cat(ls): return z3.Concat(*reversed(ls))
zpre=cat([t0,t1,t2,t3])
qv=z3.BitVecVal(q,64*N)
ge=z3.UGE(zpre,qv)
z=z3.If(ge,zpre-qv,zpre)
X=cat(x);Y=cat(y)
def ext(a,w): return z3.ZeroExt(w-a.size(),a)
SP=z3.BitVecVal(0,W)
for i in range(N):
    for j in range(N):
        SP=SP+(ext(umul(x[i],y[j]),W)<<(64*(i+j)))
M=cat(ms)
mode=sys.argv[1]
s=z3.SolverFor('QF_UFBV') if mode!='tac' else z3.Then('simplify','bit-blast','sat').solver()
s.add(z3.ULT(X,qv),z3.ULT(Y,qv))
s.add(z3.ULE(SP,z3.BitVecVal((q-1)*(q-1),W)))
for p in prods.values(): s.add(z3.ULE(p,z3.BitVecVal((2**64-1)**2,128)))
goal_peek = z3.And(ext(zpre,W)*z3.BitVecVal(R,W)==SP+ext(M,W)*z3.BitVecVal(q,W))
if mode=='peek':
    s.add(z3.Not(z3.And(goal_peek, z3.ULT(z,qv))))
elif mode=='bound':
    s.add(z3.Not(z3.ULT(z,qv)))
open('mont_'+mode+'.smt2','w').write(s.to_smt2())
t=time.time(); s.set('timeout',int(sys.argv[2])*1000); print(mode,s.check(),time.time()-t)
