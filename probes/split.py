import z3, time
r=21888242871839275222246405745257275088548364400416034343698204186575808495617
lam=4407920970296243842393367215006156084916469457145843978461
V1=(9931322734385697763,-147946756881789319000765030803803410728)
V2=(147946756881789319010696353538189108491,9931322734385697763)
Det=r
n=512
def rounding(nn,d):
    q,rem=divmod(nn,d)
    if rem>(d>>1): q+=1
    return q
b1=rounding(V2[1]<<n,Det); b2=rounding(V1[1]<<n,Det)
assert (V1[0]+lam*V1[1])%r==0 and (V2[0]+lam*V2[1])%r==0
s=z3.Int('s')
sol=z3.SolverFor('QF_LIA')
B=1<<600
sol.add(s> -B, s<B)
# Go big.Int Rsh on negative: arithmetic shift = floor division ; z3 div for positive divisor is floor (euclidean): ok
k1=(s*b1)/ (1<<n)
k2=(-(s*b2))/(1<<n)
v0=k1*V1[0]+k2*V2[0]; v1=k1*V1[1]+k2*V2[1]
u0=s-v0; u1=-v1
import sys
mode=sys.argv[1]
if mode=='cong':
    sol.add((u0+lam*u1-s)%r!=0)
else:
    # bound: for |s| < 2^256 sub-scalars < 2^130 ?
    sol.add(s>-(1<<256), s<(1<<256))
    bd=1<<int(sys.argv[2])
    sol.add(z3.Or(u0>=bd,u0<=-bd,u1>=bd,u1<=-bd))
t=time.time(); sol.set('timeout',120000); print(mode,sol.check(),time.time()-t)
if sol.check()==z3.sat: print(sol.model())
