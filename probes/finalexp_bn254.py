# layer-X (exponent) model of ecc/bn254/pairing.go FinalExponentiation; see DESIGN.md C05.4
p=21888242871839275222246405745257275088696311157297823662689037894645226208583
r=21888242871839275222246405745257275088548364400416034343698204186575808495617
x0=4965661367192848881
N=p**12-1
conj=lambda e:(e*p**6)%N; frob=lambda e,i=1:(e*p**i)%N; inv=lambda e:(-e)%N; expt=lambda e:(e*x0)%N; csq=lambda e:(2*e)%N
cyc=(p**6-1)*(p**2+1)
def chk(e): assert e%cyc==0
res=1
t0=conj(res); res=inv(res); t0=(t0+res)%N; res=(frob(t0,2)+t0)%N
t=[0]*5
chk(res); t[0]=conj(expt(res)); chk(t[0]); t[0]=csq(t[0]); t[1]=csq(t[0]); t[1]=(t[0]+t[1])%N
t[2]=conj(expt(t[1])); t[3]=conj(t[1]); t[1]=(t[2]+t[3])%N; t[3]=csq(t[2]); t[4]=expt(t[3]); t[4]=(t[1]+t[4])%N
t[3]=(t[0]+t[4])%N; t[0]=(t[2]+t[4])%N; t[0]=(res+t[0])%N; t[2]=frob(t[3]); t[0]=(t[2]+t[0])%N
t[2]=frob(t[4],2); t[0]=(t[2]+t[0])%N; t[2]=conj(res); t[2]=(t[2]+t[3])%N; t[2]=frob(t[2],3); t[0]=(t[2]+t[0])%N
E=t[0]; d=N//r
print((E*r)%N==0, E%d==0, (E//d)%r!=0, (E//d)%r==(2*x0*(6*x0*x0+3*x0+1))%r)
