import z3, time, re, sys
def run(path,mode):
    src=open(path).read()
    ql=[int(x) for x in re.findall(r'^\tq\d+\s*=\s*(\d+)\s*$',src,re.M)]; N=len(ql); q=sum(l<<(64*i) for i,l in enumerate(ql)); B=1<<64
    if mode=='bv':
        x=[z3.BitVec(f'x{i}',64) for i in range(N)]; y=[z3.BitVec(f'y{i}',64) for i in range(N)]
        def add64(a,b,c):
            s=z3.ZeroExt(1,a)+z3.ZeroExt(1,b)+z3.ZeroExt(1,c); return z3.Extract(63,0,s), z3.ZeroExt(63,z3.Extract(64,64,s))
        def sub64(a,b,c):
            s=z3.ZeroExt(1,a)-z3.ZeroExt(1,b)-z3.ZeroExt(1,c); return z3.Extract(63,0,s), z3.ZeroExt(63,z3.Extract(64,64,s))
        zz=[];c=z3.BitVecVal(0,64)
        for i in range(N): v,c=add64(x[i],y[i],c); zz.append(v)
        e=z3.BoolVal(False)
        for i in range(N): e=z3.Or(z3.ULT(zz[i],ql[i]), z3.And(zz[i]==ql[i], e))
        z2=[];b=z3.BitVecVal(0,64)
        for i in range(N): v,b=sub64(zz[i],z3.BitVecVal(ql[i],64),b); z2.append(v)
        res=[z3.If(e,zz[i],z2[i]) for i in range(N)]
        cat=lambda ls: z3.Concat(*reversed(ls)); W=64*N+1
        X=z3.ZeroExt(1,cat(x));Y=z3.ZeroExt(1,cat(y));Rr=z3.ZeroExt(1,cat(res)); Q=z3.BitVecVal(q,W)
        s=z3.SolverFor('QF_BV'); s.add(z3.ULT(X,Q),z3.ULT(Y,Q))
        s.add(z3.Not(z3.And(Rr==z3.If(z3.UGE(X+Y,Q),X+Y-Q,X+Y),z3.ULT(Rr,Q))))
    else:
        s=z3.SolverFor('QF_LIA'); cnt=[0]
        def fresh(n,lo,hi):
            cnt[0]+=1; v=z3.Int(f'{n}{cnt[0]}'); s.add(v>=lo,v<=hi); return v
        x=[fresh('x',0,B-1) for i in range(N)]; y=[fresh('y',0,B-1) for i in range(N)]
        def add64(a,b,c):
            hi=fresh('c',0,1); lo=fresh('l',0,B-1); s.add(a+b+c==hi*B+lo); return lo,hi
        def sub64(a,b,c):
            bo=fresh('b',0,1); lo=fresh('l',0,B-1); s.add(a-b-c==lo-bo*B); return lo,bo
        zz=[];c=0
        for i in range(N): v,c=add64(x[i],y[i],c); zz.append(v)
        e=z3.BoolVal(False)
        for i in range(N): e=z3.Or(zz[i]<ql[i], z3.And(zz[i]==ql[i], e))
        z2=[];b=0
        for i in range(N): v,b=sub64(zz[i],ql[i],b); z2.append(v)
        res=[z3.If(e,zz[i],z2[i]) for i in range(N)]
        val=lambda ls: sum(l*(B**i) for i,l in enumerate(ls))
        X,Y,Rr=val(x),val(y),val(res)
        s.add(X<q,Y<q)
        s.add(z3.Not(z3.And(Rr==z3.If(X+Y>=q,X+Y-q,X+Y),Rr<q,Rr>=0)))
    t=time.time(); s.set('timeout',120000); print(path.split('/')[-3:-1],mode,N,s.check(),round(time.time()-t,2),flush=True)
for p in ['/repo/ecc/bn254/fr/element.go','/repo/ecc/bls12-381/fp/element.go','/repo/ecc/bw6-761/fp/element.go']:
    for m in ['bv','lia']: run(p,m)
