import z3, time, re
def timed(name,s):
    t=time.time(); s.set('timeout',120000); r=s.check(); print(name,r,round(time.time()-t,2),flush=True)
# (1) 12-limb Add exact in BV: bw6-761 fp
src=open('/repo/ecc/bw6-761/fp/element.go').read()
ql=[int(x) for x in re.findall(r'^\tq\d+\s*=\s*(\d+)\s*$',src,re.M)]; N=len(ql); q=sum(l<<(64*i) for i,l in enumerate(ql))
x=[z3.BitVec(f'x{i}',64) for i in range(N)]; y=[z3.BitVec(f'y{i}',64) for i in range(N)]
def add64(a,b,c):
    s=z3.ZeroExt(1,a)+z3.ZeroExt(1,b)+z3.ZeroExt(1,c); return z3.Extract(63,0,s), z3.ZeroExt(63,z3.Extract(64,64,s))
def sub64(a,b,c):
    s=z3.ZeroExt(1,a)-z3.ZeroExt(1,b)-z3.ZeroExt(1,c); return z3.Extract(63,0,s), z3.ZeroExt(63,z3.Extract(64,64,s))
zz=[];c=z3.BitVecVal(0,64)
for i in range(N):
    v,c=add64(x[i],y[i],c); zz.append(v)
def lt_mod(zz):
    e=z3.BoolVal(False)
    for i in range(N):   # from low to high build nested
        e=z3.Or(z3.ULT(zz[i],ql[i]), z3.And(zz[i]==ql[i], e))
    return e
sm=lt_mod(zz)
z2=[];b=z3.BitVecVal(0,64)
for i in range(N):
    v,b=sub64(zz[i],z3.BitVecVal(ql[i],64),b); z2.append(v)
res=[z3.If(sm,zz[i],z2[i]) for i in range(N)]
cat=lambda ls: z3.Concat(*reversed(ls))
W=64*N+1
X=z3.ZeroExt(1,cat(x));Y=z3.ZeroExt(1,cat(y));Rr=z3.ZeroExt(1,cat(res)); Q=z3.BitVecVal(q,W)
s=z3.SolverFor('QF_BV'); s.add(z3.ULT(X,Q),z3.ULT(Y,Q))
spec=z3.If(z3.UGE(X+Y,Q),X+Y-Q,X+Y)
s.add(z3.Not(z3.And(Rr==spec,z3.ULT(Rr,Q))))
timed('add12 BV',s)
# (3) per-chunk digit step lemma, c=13 chunk 4 (multiword) bn254 fr
c=13; ch=4; jc=ch*c; idx=jc//64; sh=jc-idx*64
sc=[z3.BitVec(f's{i}',64) for i in range(4)]; S=cat(sc)
carry=z3.BitVec('carry',64)
mask=((1<<c)-1)<<sh & (2**64-1)
digit=carry+z3.LShR(sc[idx]&z3.BitVecVal(mask,64),sh)
mws=(64%c!=0) and sh>(64-c) and idx<3
if mws:
    nbh=sh-(64-c); digit=digit+((sc[idx+1]&z3.BitVecVal((1<<nbh)-1,64))<<(c-nbh))
big=digit>z3.BitVecVal((1<<(c-1))-1,64)
d2=z3.If(big,digit-(1<<c),digit); c2=z3.If(big,z3.BitVecVal(1,64),z3.BitVecVal(0,64))
w=z3.ZeroExt(64-c,z3.Extract(jc+c-1,jc,S))
s=z3.SolverFor('QF_BV'); s.add(z3.ULE(carry,1))
s.add(z3.Not(z3.And(d2+(c2<<c)==carry+w, d2>=-(1<<(c-1)), d2<=(1<<(c-1))-1, z3.ULE(c2,1))))
timed('digit step c=13 ch=4 (mws=%s)'%mws,s)
# (4) koalabear montReduce in LIA
qk=2130706433; B=1<<32; qinv=(-pow(qk,-1,B))%B
v=z3.Int('v'); s=z3.SolverFor('QF_LIA'); s.add(v>=0,v<=(qk-1)*(qk-1))
m=(( v% B)*qinv)%B; t=(v+m*qk)/B; r=z3.If(t>=qk,t-qk,t)
s.add(z3.Not(z3.And((r*B-v)%qk==0,r<qk,r>=0, v+m*qk<(1<<64), t<B)))
timed('koalabear montReduce LIA',s)
