import cvc5, time
from cvc5 import Kind
p = 21888242871839275222246405745257275088696311157297823662689037894645226208583  # bn254 fp
s = cvc5.Solver()
s.setLogic('QF_FF')
s.setOption('produce-models','true')
F = s.mkFiniteFieldSort(str(p))
x = s.mkConst(F,'x'); y = s.mkConst(F,'y')
def mul(a,b): return s.mkTerm(Kind.FINITE_FIELD_MULT,a,b)
def add(a,b): return s.mkTerm(Kind.FINITE_FIELD_ADD,a,b)
def neg(a): return s.mkTerm(Kind.FINITE_FIELD_NEG,a)
# (x+y)^2 == x^2 + 2xy + y^2
lhs = mul(add(x,y),add(x,y))
two = s.mkFiniteFieldElem('2',F)
rhs = add(add(mul(x,x), mul(two,mul(x,y))), mul(y,y))
s.assertFormula(s.mkTerm(Kind.NOT, s.mkTerm(Kind.EQUAL,lhs,rhs)))
t=time.time()
try:
    r = s.checkSat(); print(r, time.time()-t)
except Exception as e:
    print('EXC', e)
