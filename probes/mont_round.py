import z3, time, sys
q_limbs=[4891460686036598785,2896914383306846353,13281191951274694749,3486998266802970665]
qInvNeg=14042775128853446655
N=4
q=sum(l<<(64*i) for i,l in enumerate(q_limbs))
def bv(v): return z3.BitVecVal(v,64)
Z=bv(0)
def mulc(a,c):
    p=z3.ZeroExt(64,a)*z3.BitVecVal(c,128)
    return z3.Extract(127,64,p), z3.Extract(63,0,p)
def add(a,b,c):
    s=z3.ZeroExt(1,a)+z3.ZeroExt(1,b)+z3.ZeroExt(1,c)
    return z3.Extract(63,0,s), z3.ZeroExt(63,z3.Extract(64,64,s))
ms=[]
def reduce_part(t0,t1,t2,t3,c2):
    m=bv(qInvNeg)*t0; ms.append(m)
    u0,c1=mulc(m,q_limbs[0]); _,c0=add(t0,c1,Z)
    u1,c1=mulc(m,q_limbs[1]); t0,c0=add(t1,c1,c0)
    u2,c1=mulc(m,q_limbs[2]); t1,c0=add(t2,c1,c0)
    u3,c1=mulc(m,q_limbs[3])
    t2,c0=add(Z,c1,c0); u3,_=add(u3,Z,c0)
    t0,c0=add(u0,t0,Z); t1,c0=add(u1,t1,c0); t2,c0=add(u2,t2,c0); c2,_=add(c2,Z,c0)
    t2,c0=add(t3,t2,Z); t3,_=add(u3,c2,c0)
    return t0,t1,t2,t3
T=[z3.BitVec(f't{i}',64) for i in range(N)]
P=[z3.BitVec(f'p{i}',128) for i in range(N)]
def hl(p): return z3.Extract(127,64,p), z3.Extract(63,0,p)
t0,t1,t2,t3=T
u0,c1=hl(P[0]);t0,c0=add(c1,t0,Z)
u1,c1=hl(P[1]);t1,c0=add(c1,t1,c0)
u2,c1=hl(P[2]);t2,c0=add(c1,t2,c0)
u3,c1=hl(P[3]);t3,c0=add(c1,t3,c0)
c2,_=add(Z,Z,c0)
t1,c0=add(u0,t1,Z);t2,c0=add(u1,t2,c0);t3,c0=add(u2,t3,c0);c2,_=add(u3,c2,c0)
t0,t1,t2,t3=reduce_part(t0,t1,t2,t3,c2)
W=64*N+128
def cat(ls): return z3.Concat(*reversed(ls))
def ext(a): return z3.ZeroExt(W-a.size(),a)
Tin=cat(T); Tout=cat([t0,t1,t2,t3])
SP=z3.BitVecVal(0,W)
for j in range(N): SP=SP+(ext(P[j])<<(64*j))
s=z3.SolverFor('QF_BV')
qW=z3.BitVecVal(q,W)
s.add(z3.ULT(ext(Tin),2*qW))
s.add(z3.ULE(SP,z3.BitVecVal((2**64-1)*(q-1),W)))
goal=z3.And(ext(Tout)<<64 == ext(Tin)+SP+ext(ms[0])*qW, z3.ULT(ext(Tout),2*qW))
s.add(z3.Not(goal))
open('mont_round.smt2','w').write(s.to_smt2())
t=time.time(); s.set('timeout',300000); print(s.check(),time.time()-t)
