import z3, time, sys
c=int(sys.argv[1]); FRBITS=254; LIMBS=4
r=21888242871839275222246405745257275088548364400416034343698204186575808495617
nb=(FRBITS+c-1)//c
sc=[z3.BitVec(f's{i}',64) for i in range(LIMBS)]
S=z3.Concat(*reversed(sc))
mask=(1<<c)-1; mx=(1<<(c-1))-1; cdiv=(64%c)==0
W=320
def zx(a,w=W): return z3.ZeroExt(w-a.size(),a)
def sx(a,w=W): return z3.SignExt(w-a.size(),a)
carry=z3.BitVecVal(0,64)
total=z3.BitVecVal(0,W)
cons=[]
for ch in range(nb):
    jc=ch*c; idx=jc//64; sh=jc-idx*64
    m=(mask<<sh)&(2**64-1)
    mws=(not cdiv) and sh>(64-c) and idx<LIMBS-1
    digit=carry+z3.LShR(sc[idx]&z3.BitVecVal(m,64),sh)
    if mws:
        nbh=sh-(64-c); mh=(1<<nbh)-1; shh=c-nbh
        digit=digit+((sc[idx+1]&z3.BitVecVal(mh,64))<<shh)
    if ch<nb-1:
        big=digit>z3.BitVecVal(mx,64)   # signed compare on int
        d2=z3.If(big,digit-z3.BitVecVal(1<<c,64),digit)
        carry=z3.If(big,z3.BitVecVal(1,64),z3.BitVecVal(0,64))
        # encode/decode through uint16 bits
        bits=z3.If(d2==0,z3.BitVecVal(0,16), z3.If(d2>0, z3.Extract(15,0,d2)<<1, (z3.Extract(15,0,-d2-1)<<1)+1))
    else:
        d2=digit
        bits=z3.Extract(15,0,digit)<<1
    # decode as the chunk processor does
    neg=z3.Extract(0,0,bits)==1
    mag=z3.If(bits==0, z3.BitVecVal(0,W), z3.If(neg, zx(z3.LShR(bits,1))+1, zx(z3.LShR(bits,1))))
    val=z3.If(neg,-mag,mag)
    total=total+(val<<(ch*c))
    # bucket index in range
    nbuckets=1<<(c-1)
    if ch<nb-1:
        cons.append(z3.Implies(bits!=0, z3.ULT(z3.If(neg,zx(z3.LShR(bits,1)),zx(z3.LShR(bits,1))-1), nbuckets)))
s=z3.SolverFor('QF_BV')
s.add(z3.ULT(zx(S,256),z3.BitVecVal(r,256)))
s.add(z3.Not(z3.And(total==zx(S),*cons)))
t=time.time(); s.set('timeout',300000); print('c',c,s.check(),time.time()-t)
