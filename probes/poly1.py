import z3, time
R = z3.Real
X1,Y1,Z1,X2,Y2,Z2 = z3.Reals('X1 Y1 Z1 X2 Y2 Z2')
def sq(a): return a*a
# code: p=(X2,Y2,Z2) receiver, q=(X1,Y1,Z1)
Z1Z1=sq(Z1); Z2Z2=sq(Z2); U1=X1*Z2Z2; U2=X2*Z1Z1; S1=Y1*Z2*Z2Z2; S2=Y2*Z1*Z1Z1
H=U2-U1; I=sq(2*H); J=H*I; r=2*(S2-S1); V=U1*I
X3=sq(r)-J-V-V; Y3=(V-X3)*r - 2*(S1*J); Z3=(sq(Z2+Z1)-Z1Z1-Z2Z2)*H
# spec: affine chord; x_i = X_i/Z_i^2
x1=X1/sq(Z1); y1=Y1/(sq(Z1)*Z1); x2=X2/sq(Z2); y2=Y2/(sq(Z2)*Z2)
lam=(y2-y1)/(x2-x1); x3=sq(lam)-x1-x2; y3=lam*(x1-x3)-y1
s=z3.Solver()
s.add(Z1!=0,Z2!=0,x1!=x2)
s.add(z3.Or(Z3==0, X3!=x3*sq(Z3), Y3!=y3*sq(Z3)*Z3))
t=time.time(); print(s.check(), time.time()-t)
