#!/usr/bin/env python3
"""Summary of the committed evidence files (sanity check before committing)."""
import glob, json
for f in sorted(glob.glob('/verif/evidence/*.json')):
    e = json.load(open(f)); c = e['coverage']
    flag = "OK " if (not c.get('inconclusive') and c['obligations'] == c['discharged'] and e.get('violations', 0) == 0) else "BAD"
    print(flag, e['property_id'], e['tier'], "wall=%ss" % e['wall_s'], "obl=%d/%d" % (c['discharged'], c['obligations']),
          "harnesses=%d/%d" % (c['harnesses_proved'], c['harnesses']), "known=%d" % len(c.get('known_findings', [])),
          "inconclusive=%d" % len(c.get('inconclusive', [])))
