# Builds the verification machinery from files on disk only (offline).
export GOFLAGS=-mod=mod
export GOPROXY=off
export GOSUMDB=off
export GOTOOLCHAIN=local

all: bin/gosmt

bin/gosmt: $(wildcard gosmt/*.go) gosmt/go.mod
	mkdir -p bin
	cd gosmt && go build -o ../bin/gosmt .

clean:
	rm -rf bin .work replays
