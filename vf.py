#!/usr/bin/env python3
"""Driver for the solver-based checks of gnark-crypto.

  vf.py <PROP> [--tier quick|thorough] [--only REGEX] [--pkg SUBSTR] [--keep] [--jobs N]

For every job of the property (package under test + harness templates) it renders the harness
overlay, runs gosmt (go/ssa -> SMT-LIB2 -> z3/cvc5) on /repo's current working tree, replays every
model natively (go test -overlay), prints VIOLATION / KNOWN-FINDING lines, writes
evidence/<PROP>.json and exits 0 (held), 1 (violation) or 2 (inconclusive).
"""
import argparse
import concurrent.futures as cf
import hashlib
import json
import os
import re
import shutil
import subprocess
import sys
import time

ROOT = os.path.dirname(os.path.abspath(__file__))
TIER = "quick"
REPO = os.environ.get("VERIF_REPO", "/repo")
MODULE = "github.com/consensys/gnark-crypto"
GOSMT = os.path.join(ROOT, "bin", "gosmt")
WORK = os.path.join(ROOT, ".work")
GOENV = dict(os.environ, GOFLAGS="-mod=mod", GOPROXY="off", GOSUMDB="off", GOTOOLCHAIN="local")

sys.path.insert(0, ROOT)


class Job:
    def __init__(self, pkg, templates, params=None, only=None, tier="quick", solver="z3a2:10000,cvc5:20000,z3new,z3s", tags="purego",
                 timeout_ms=60000, jobs=4, cross=None, label=None, skip_quick=None, goarch=None, skip=None):
        self.pkg = pkg                # import path relative to module, e.g. "ecc/bn254/fr"
        self.templates = templates    # list of template paths relative to /verif/harness
        self.params = params or {}
        self.only = only
        self.tier = tier
        self.solver = solver
        self.tags = tags
        self.timeout_ms = timeout_ms
        self.jobs = jobs
        self.cross = cross
        self.label = label or pkg
        self.skip_quick = skip_quick
        self.skip = skip  # regexp of harness names not run for this package in any tier (bounds that do not run clean)
        self.goarch = goarch  # regexp of harness names left to the thorough tier for this package


def render(path, params):
    s = open(path).read()
    # conditional blocks:  //IF Name ... //ENDIF   (kept when params[Name] is truthy)
    out, keep = [], [True]
    for line in s.split("\n"):
        m = re.match(r"\s*//IF (!?)(\w+)\s*$", line)
        if m:
            val = bool(params.get(m.group(2)))
            keep.append(keep[-1] and (not val if m.group(1) else val))
            continue
        if re.match(r"\s*//ENDIF\s*$", line):
            keep.pop()
            continue
        if keep[-1]:
            out.append(line)
    s = "\n".join(out)
    for k, v in params.items():
        s = s.replace("{{." + k + "}}", str(v))
    m = re.search(r"\{\{\.(\w+)\}\}", s)
    if m:
        raise SystemExit("template %s: unbound parameter %s" % (path, m.group(1)))
    return s


def pkg_name(pkgdir):
    for f in sorted(os.listdir(pkgdir)):
        if f.endswith(".go") and not f.endswith("_test.go"):
            for line in open(os.path.join(pkgdir, f)):
                m = re.match(r"package (\w+)", line)
                if m:
                    return m.group(1)
    raise SystemExit("no package clause in " + pkgdir)


def prepare(prop, idx, job):
    """Render the overlay files of one job. Returns dict with paths."""
    pkgdir = os.path.join(REPO, job.pkg)
    params = dict(job.params)
    params.setdefault("Pkg", pkg_name(pkgdir))
    params.setdefault("Module", MODULE)
    params.setdefault("PkgPath", MODULE + "/" + job.pkg)
    params["Native"] = 0
    wd = os.path.join(WORK, prop, "%03d_%s" % (idx, job.label.replace("/", "_")))
    shutil.rmtree(wd, ignore_errors=True)
    os.makedirs(wd)
    files = {}
    sym = os.path.join(wd, "prelude_sym.go")
    open(sym, "w").write(render(os.path.join(ROOT, "harness", "prelude_sym.go.tmpl"), params))
    nat = os.path.join(wd, "prelude_native.go")
    open(nat, "w").write(render(os.path.join(ROOT, "harness", "prelude_native.go.tmpl"), params))
    harness_names = []
    thorough_only = []
    hfiles = []
    nfiles = []
    for k, t in enumerate(job.templates):
        src = render(os.path.join(ROOT, "harness", t), params)
        hp = os.path.join(wd, "h%d.go" % k)
        open(hp, "w").write(src)
        hfiles.append(hp)
        harness_names += re.findall(r"^func (H_\w+)\(\)", src, re.M)
        # harnesses marked tier=thorough in their //verif:harness line are skipped by the quick tier
        for m in re.finditer(r"^//verif:harness[^\n]*\btier=thorough\b[^\n]*\n(?://[^\n]*\n)*func (H_\w+)\(\)", src, re.M):
            thorough_only.append(m.group(1))
        # a template may have a native twin (x.native.go.tmpl) used for the replay build
        nt = os.path.join(ROOT, "harness", t.replace(".go.tmpl", ".native.go.tmpl"))
        if os.path.exists(nt):
            np_ = os.path.join(wd, "h%d_native.go" % k)
            open(np_, "w").write(render(nt, params))
            nfiles.append(np_)
        elif "//IF Native" in open(os.path.join(ROOT, "harness", t)).read() or "//IF !Native" in open(os.path.join(ROOT, "harness", t)).read():
            # the same template rendered for the native build (//IF Native ... //ENDIF blocks)
            np_ = os.path.join(wd, "h%d_native.go" % k)
            open(np_, "w").write(render(os.path.join(ROOT, "harness", t), dict(params, Native=1)))
            nfiles.append(np_)
        else:
            nfiles.append(hp)
    rp = dict(params)
    rp["HarnessMap"] = "\n".join('\t"%s": %s,' % (h, h) for h in harness_names)
    rt = os.path.join(wd, "replay_test.go")
    open(rt, "w").write(render(os.path.join(ROOT, "harness", "replay_test.go.tmpl"), rp))
    files.update(wd=wd, sym=sym, nat=nat, hfiles=hfiles, nfiles=nfiles, thorough_only=thorough_only, replay_test=rt, pkgdir=pkgdir, harnesses=harness_names)
    return files


def run_gosmt(prop, idx, job, files, only, extra_args=()):
    ov = ["%s/zz_verif_prelude.go=%s" % (files["pkgdir"], files["sym"])]
    for k, hp in enumerate(files["hfiles"]):
        ov.append("%s/zz_verif_h%d.go=%s" % (files["pkgdir"], k, hp))
    out = os.path.join(files["wd"], "result.json")
    cmd = [GOSMT, "-dir", REPO, "-pkg", MODULE + "/" + job.pkg, "-overlay", ",".join(ov), "-tags", job.tags,
           "-solver", job.solver, "-j", str(job.jobs), "-out", out, "-timeout", str(job.timeout_ms)]
    o = only or job.only
    if not o and job.skip:
        o = "^(" + "|".join(h for h in files["harnesses"] if not re.search(job.skip, h)) + ")$"
    if not o and TIER != "thorough" and (files.get("thorough_only") or job.skip_quick):
        keep = [h for h in files["harnesses"] if h not in files["thorough_only"]
                and not (job.skip_quick and re.search(job.skip_quick, h))]
        o = "^(" + "|".join(keep) + ")$"
    if o:
        cmd += ["-only", o]
    if job.cross:
        cmd += ["-cross", job.cross]
    if job.goarch:
        cmd += ["-goarch", job.goarch]
    if os.environ.get("VERIF_SMTDIR"):
        cmd += ["-smtdir", files["wd"]]
    cmd += list(extra_args)
    t0 = time.time()
    p = subprocess.run(cmd, env=GOENV, stdout=subprocess.PIPE, stderr=subprocess.PIPE, text=True)
    wall = time.time() - t0
    res = None
    if os.path.exists(out):
        try:
            res = json.load(open(out))
        except Exception:
            res = None
    return dict(job=job, files=files, rc=p.returncode, stderr=p.stderr, result=res, wall=wall, cmd=" ".join(cmd))


def replay(prop, job, files, h):
    """Replay the model of a violated harness natively. Returns (reproduced, replay_path, output)."""
    rdir = os.path.join(ROOT, "replays", prop)
    os.makedirs(rdir, exist_ok=True)
    tag = "%s__%s" % (job.label.replace("/", "_"), h["name"])
    keep = os.path.join(rdir, tag)
    shutil.rmtree(keep, ignore_errors=True)
    os.makedirs(keep)
    # copy harness files so that the replay is self-contained
    repl = {}
    shutil.copy(files["nat"], os.path.join(keep, "prelude_native.go"))
    repl["%s/zz_verif_prelude.go" % files["pkgdir"]] = os.path.join(keep, "prelude_native.go")
    for k, hp in enumerate(files["nfiles"]):
        dst = os.path.join(keep, "h%d.go" % k)
        shutil.copy(hp, dst)
        repl["%s/zz_verif_h%d.go" % (files["pkgdir"], k)] = dst
    dst = os.path.join(keep, "replay_test.go")
    shutil.copy(files["replay_test"], dst)
    repl["%s/zz_verif_replay_test.go" % files["pkgdir"]] = dst
    json.dump({"Replace": repl}, open(os.path.join(keep, "overlay.json"), "w"), indent=1)
    json.dump({"harness": h["name"], "pkg": job.pkg, "violated": h.get("violated"), "model": h.get("model") or {}},
              open(os.path.join(keep, "model.json"), "w"), indent=1)
    script = os.path.join(keep, "replay.sh")
    open(script, "w").write(
        "#!/bin/sh\n# native replay of a solver counterexample against the real code\n"
        "cd %s && GOFLAGS=-mod=mod GOPROXY=off GOSUMDB=off GOTOOLCHAIN=local VERIF_MODEL=%s VERIF_HARNESS=%s VERIF_DEFAULT=%s "
        "go test -count=1 -vet=off -tags=%s -overlay %s -run '^TestVerifReplay$' -v ./%s\n"
        % (REPO, os.path.join(keep, "model.json"), h["name"],
           # a frame violation does not depend on the values: inputs the model leaves open get distinct non-zero defaults,
           # so that an in-place update is visible (x*0 = 0 would hide it)
           "nonzero" if (h.get("violated") or {}).get("kind") == "frame" else "zero",
           job.tags, os.path.join(keep, "overlay.json"), job.pkg))
    os.chmod(script, 0o755)
    try:
        p = subprocess.run(["sh", script], stdout=subprocess.PIPE, stderr=subprocess.STDOUT, text=True, timeout=900)
        out = p.stdout
    except subprocess.TimeoutExpired:
        out = "replay timeout"
    open(os.path.join(keep, "replay.out"), "w").write(out)
    v = h.get("violated") or {}
    if v.get("kind") == "assert":
        m = re.search(r"VERIF-REPLAY: assertion failed: \[(.*)\]", out)
        reproduced = bool(m) and v.get("id", "") in m.group(1)
    elif v.get("kind") == "frame":
        # a write to a read-only object: natively the object differs from its snapshot at the end of the harness
        m = re.search(r"VERIF-REPLAY: assertion failed: \[(.*)\]", out)
        reproduced = bool(m) and "frame: a read-only object was modified" in m.group(1)
    else:
        reproduced = "VERIF-REPLAY: panic" in out
    return reproduced, script, out


def retry_pinned(prop, job, files, h, seed):
    import random
    rnd = random.Random(seed)
    pin_re = re.compile(h["cfg"]["pin"])
    base = dict(h.get("model") or {})
    names = sorted((k for k in base if pin_re.search(k)), key=lambda s: [int(t) if t.isdigit() else t for t in re.split(r"(\d+)", s)])
    attempts = []
    # unit operands make every product with them linear and keep the constants small
    m = dict(base)
    for i, k in enumerate(names):
        m[k] = "1" if i == 0 else "0"
    attempts.append(m)
    m = dict(base)
    for i, k in enumerate(names):
        m[k] = "0" if i == len(names) - 1 and len(names) > 1 else "1"
    attempts.append(m)
    attempts.append(base)
    m = dict(base)
    for i, k in enumerate(names):
        m[k] = "0" if i == len(names) - 1 and len(names) > 1 else str(rnd.getrandbits(64) | 1)
    attempts.append(m)
    for n, m in enumerate(attempts):
        pf = os.path.join(files["wd"], "pin_%s_%d.json" % (h["name"], n))
        json.dump({"model": m}, open(pf, "w"))
        r = run_gosmt(prop, 0, job, files, "^" + h["name"] + "$",
                      extra_args=["-pin", pf, "-out", pf + ".result.json", "-solver", "z3new:60000,z3a2:30000"])
        try:
            res = json.load(open(pf + ".result.json"))
        except Exception:
            continue
        for h2 in res["harnesses"]:
            if h2["status"] == "violated":
                # pinned inputs are not part of the model any more: merge them back for the replay
                mm = dict(h2.get("model") or {})
                for k, val in m.items():
                    if pin_re.search(k):
                        mm[k] = val
                h2["model"] = mm
                reproduced, script, out = replay(prop, job, files, h2)
                if reproduced:
                    return h2, True, script
    return h, False, None


def load_known():
    path = os.path.join(ROOT, "known_findings.txt")
    out = []
    if not os.path.exists(path):
        return out
    for line in open(path):
        line = line.strip()
        if not line or line.startswith("#"):
            continue
        m = re.match(r"finding: property=(\S+) pkg=(\S+) harness=(\S+) obligation=(\S+) (.*)", line)
        if m:
            out.append(dict(prop=m.group(1), pkg=m.group(2), harness=m.group(3), obl=m.group(4), what=m.group(5)))
    return out


def match_known(known, prop, job, h):
    v = h.get("violated") or {}
    oid = (v.get("kind", "") + ":" + v.get("id", "")).replace(" ", "_")
    for k in known:
        if k["prop"] != prop:
            continue
        if not re.fullmatch(k["pkg"], job.pkg):
            continue
        if not re.fullmatch(k["harness"], h["name"]):
            continue
        if not re.fullmatch(k["obl"], oid):
            continue
        return k
    return None


def main():
    ap = argparse.ArgumentParser()
    ap.add_argument("prop")
    ap.add_argument("--tier", default=os.environ.get("VERIF_TIER", "quick"))
    ap.add_argument("--only", default=None)
    ap.add_argument("--pkg", default=None)
    ap.add_argument("--par", type=int, default=0, help="parallel gosmt processes")
    ap.add_argument("--no-evidence", action="store_true")
    ap.add_argument("-v", action="store_true")
    args = ap.parse_args()
    import checks
    global TIER
    TIER = args.tier
    prop = args.prop
    spec = checks.PROPS[prop]
    jobs = [j for j in spec["jobs"] if j.tier == "quick" or args.tier == "thorough"]
    if args.pkg:
        jobs = [j for j in jobs if re.search(args.pkg, j.label)]
    seed = int(os.environ.get("VERIF_SEED", "0") or 0)
    t0 = time.time()
    if not os.path.exists(GOSMT):
        print("gosmt binary missing: run setup (make -C /verif)", file=sys.stderr)
        sys.exit(2)
    ncpu = os.cpu_count() or 4
    # avoid oversubscription (solver time limits are wall-clock): processes x harness workers <= cores
    maxj = max([j.jobs for j in jobs] or [1])
    par = args.par or max(1, min(len(jobs), ncpu // maxj))
    prepared = [(i, j, prepare(prop, i, j)) for i, j in enumerate(jobs)]
    # heavier jobs first
    runs = []
    with cf.ThreadPoolExecutor(max_workers=par) as tp:
        futs = [tp.submit(run_gosmt, prop, i, j, f, args.only) for i, j, f in prepared]
        for fu in futs:
            runs.append(fu.result())
    known = load_known()
    violations = []
    inconclusive = []
    known_hits = []
    harness_rows = []
    n_obl = n_dis = n_q = 0
    solver_secs = 0.0
    funcs = set()
    samples = []
    notes = {}
    for r in runs:
        job = r["job"]
        if r["result"] is None:
            inconclusive.append("%s: gosmt failed rc=%s: %s" % (job.label, r["rc"], r["stderr"][-2000:]))
            continue
        for h in r["result"]["harnesses"]:
            n_obl += h.get("num_obligations", 0)
            n_dis += h.get("discharged", 0)
            n_q += h.get("queries", 0)
            solver_secs += h.get("solver_secs", 0.0)
            for f in h.get("funcs") or []:
                if ".H_" not in f and "verif" not in f:
                    funcs.add(f.replace(MODULE + "/", ""))
            for k, v in (h.get("notes") or {}).items():
                notes[k] = notes.get(k, 0) + v
            row = dict(pkg=job.pkg, harness=h["name"], status=h["status"], obligations=h.get("num_obligations", 0),
                       discharged=h.get("discharged", 0), solver_s=round(h.get("solver_secs", 0.0), 3),
                       cfg=h.get("cfg"), message=h.get("message", ""))
            harness_rows.append(row)
            if len(samples) < 6:
                for o in h.get("obligations") or []:
                    if o.get("sample") and o["sample"] != "batched":
                        samples.append(dict(pkg=job.pkg, harness=h["name"], obligation=o["kind"] + ":" + o["id"],
                                            at=o["pos"], status=o["status"], negated_goal_head=o["sample"][:300]))
                        break
            if h["status"] == "proved":
                continue
            if h["status"] == "violated":
                k = match_known(known, prop, job, h)
                reproduced, script, out = replay(prop, job, r["files"], h)
                row["replayed"] = reproduced
                if k is not None and reproduced:
                    known_hits.append((k, job, h))
                    row["status"] = "known-finding"
                    continue
                if not reproduced and (h.get("cfg") or {}).get("pin"):
                    # semi-concretisation: the model lives in an over-approximation (uninterpreted products);
                    # pin the inputs named by the harness to concrete values so that the query is exact
                    h2, rep2, script2 = retry_pinned(prop, job, r["files"], h, seed)
                    if h2 is not None:
                        row["pinned_retry"] = h2["status"]
                        if rep2:
                            reproduced, script, h = True, script2, h2
                if reproduced:
                    violations.append((job, h, script))
                else:
                    inconclusive.append("%s %s: solver model for %s did not reproduce natively (see %s)" % (
                        job.label, h["name"], h.get("message"), script))
            else:
                inconclusive.append("%s %s: %s %s" % (job.label, h["name"], h["status"], h.get("message", "")))
    wall = time.time() - t0
    for k, job, h in known_hits:
        print("KNOWN-FINDING: property=%s %s [%s %s]" % (prop, k["what"], job.pkg, h["name"]))
    for job, h, script in violations:
        print("VIOLATION property=%s replay=%s" % (prop, script))
        print("  %s %s: %s" % (job.pkg, h["name"], h.get("message")))
    for m in inconclusive:
        print("INCONCLUSIVE property=%s %s" % (prop, m))
    nproved = sum(1 for r in harness_rows if r["status"] == "proved")
    print("%s tier=%s: %d harnesses (%d proved, %d known findings, %d violations, %d inconclusive), "
          "%d/%d obligations discharged, %d solver queries, solver %.1fs, wall %.1fs" % (
              prop, args.tier, len(harness_rows), nproved, len(known_hits), len(violations), len(inconclusive),
              n_dis, n_obl, n_q, solver_secs, wall))
    if args.v:
        for r in harness_rows:
            print("  %-28s %-34s %-12s %d/%d %.2fs %s" % (r["pkg"], r["harness"], r["status"], r["discharged"],
                                                       r["obligations"], r["solver_s"], r["message"][:200]))
    if not args.no_evidence and not args.only and not args.pkg:
        ev = dict(
            property_id=prop, tier=args.tier, seed=seed, level="proof",
            coverage=dict(
                # obligations of the claim: those of listed known findings are reported separately (they are genuine,
                # replayed violations recorded in known_findings.txt, not part of what is claimed to hold)
                obligations=n_obl - sum(h.get("num_obligations", 0) - h.get("discharged", 0) for _, _, h in known_hits),
                discharged=n_dis,
                known_finding_obligations=sum(h.get("num_obligations", 0) - h.get("discharged", 0) for _, _, h in known_hits),
                checker_cmd="bin/gosmt (go/ssa -> SMT-LIB2) | z3-new -in (z3 5.1.0); per-job command lines in 'jobs'",
                trusted_base=spec.get("trusted_base", []) + [
                    "golang.org/x/tools/go/ssa v0.29.0 translation of the Go source",
                    "gosmt executor semantics (integer ops over Int with explicit wrap-around, memory model, summaries listed in assumptions)",
                    "z3 5.1.0"],
                explanation=spec.get("explanation", ""),
                bounds=spec.get("bounds", ""),
                outside_claim=spec.get("outside", ""),
                functions_encoded=sorted(funcs)[:400],
                functions_encoded_count=len(funcs),
                harnesses=len(harness_rows), harnesses_proved=nproved,
                solver_queries=n_q, solver_seconds=round(solver_secs, 2),
                samples=samples, harness_table=harness_rows,
                jobs=[dict(pkg=r["job"].pkg, templates=r["job"].templates, wall_s=round(r["wall"], 1), cmd=r["cmd"].replace(ROOT, "/verif")) for r in runs],
                executor_notes=notes,
                known_findings=[k["what"] for k, _, _ in known_hits],
                inconclusive=inconclusive,
            ),
            assumptions=spec.get("assumptions", []),
            wall_s=round(wall, 2),
            violations=len(violations),
        )
        os.makedirs(os.path.join(ROOT, "evidence"), exist_ok=True)
        json.dump(ev, open(os.path.join(ROOT, "evidence", prop + ".json"), "w"), indent=1)
    if violations:
        sys.exit(1)
    if inconclusive:
        sys.exit(2)
    sys.exit(0)


if __name__ == "__main__":
    main()
