#!/usr/bin/env python3
"""Regenerates MANIFEST.json from checks.PROPS so that the two never drift."""
import json, os, sys
ROOT = os.path.dirname(os.path.abspath(__file__))
sys.path.insert(0, ROOT)
import checks

props = [json.loads(l)["id"] for l in open(os.path.join(ROOT, "properties.jsonl"))]
m = dict(
    version=1,
    setup_cmd="make -C /verif",
    hooks=dict(
        guard="verif",
        enable="no source hooks: harnesses, nondeterministic intrinsics and replay bodies are injected as go overlay files (zz_verif_*.go, never written under /repo); checks load /repo with -tags=purego",
        baseline_off_cmd="cd /repo && GOFLAGS=-mod=mod go test -json -vet=off -count=1 -timeout 25m ./...",
        source_commits=[],
        add_only=True,
    ),
    engines=[dict(name="gosmt", path="/verif/gosmt",
                  serves_properties=[p for p in props if checks.PROPS.get(p, {}).get("jobs")],
                  kind_free_text="bounded symbolic executor for go/ssa (golang.org/x/tools v0.29.0) producing SMT-LIB2 (LIA/NRA/UF) discharged by z3 5.1 / cvc5 1.0.3 / z3 4.8.12; models replayed natively with go test -overlay")],
    checks=[],
    not_applicable=[],
    notes=checks.NOTES,
)
for p in props:
    spec = checks.PROPS.get(p)
    if not spec or not spec.get("jobs"):
        m["not_applicable"].append(dict(property_id=p, reason=(spec or {}).get("na_reason", "no check registered")))
        continue
    c = dict(
        property_id=p,
        quick_cmd="python3 /verif/vf.py %s --tier quick" % p,
        thorough_cmd="python3 /verif/vf.py %s --tier thorough" % p,
        evidence_file="/verif/evidence/%s.json" % p,
        replay_cmd_template="sh {path}",
        engine="gosmt",
        level_claimed=dict(category="proof", text=spec["level_text"], design_ref=spec.get("design_ref", "DESIGN.md §3 " + p)),
        level_note=spec["level_note"],
        technique="bounded symbolic execution of the Go SSA into SMT-LIB2; every obligation decided by z3/cvc5 (unsat = holds within the stated bounds, sat = model replayed natively)",
    )
    m["checks"].append(c)
json.dump(m, open(os.path.join(ROOT, "MANIFEST.json"), "w"), indent=1)
print("MANIFEST.json: %d checks, %d not_applicable" % (len(m["checks"]), len(m["not_applicable"])))
